# source this: offline Go toolchain for govc and for loading /repo
export PATH=/root/go/pkg/mod/golang.org/toolchain@v0.0.1-go1.24.2.linux-amd64/bin:$PATH
export GOTOOLCHAIN=local GOFLAGS=-mod=mod GOPROXY=off GOSUMDB=off CGO_ENABLED=0
