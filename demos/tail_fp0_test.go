package service

import (
	"context"
	"database/sql"
	"database/sql/driver"
	"encoding/json"
	"io"
	"strings"
	"testing"
	"time"

	"github.com/metrico/cloki-config/config"
	"github.com/metrico/qryn/reader/model"
)

type fakeDrv struct{}
type fakeConn struct{}
type fakeStmt struct{ q string }
type fakeRows struct {
	cols []string
	rows [][]driver.Value
	i    int
}

func (fakeDrv) Open(string) (driver.Conn, error)          { return fakeConn{}, nil }
func (fakeConn) Prepare(q string) (driver.Stmt, error)    { return fakeStmt{q}, nil }
func (fakeConn) Close() error                             { return nil }
func (fakeConn) Begin() (driver.Tx, error)                { return nil, io.EOF }
func (s fakeStmt) Close() error                           { return nil }
func (s fakeStmt) NumInput() int                          { return -1 }
func (s fakeStmt) Exec([]driver.Value) (driver.Result, error) { return nil, io.EOF }
func (s fakeStmt) Query([]driver.Value) (driver.Rows, error) {
	if strings.Contains(s.q, "type='update'") {
		return &fakeRows{cols: []string{"_name", "_value"}}, nil
	}
	// one log row of a series whose fingerprint is 0, timestamp "now"
	return &fakeRows{cols: []string{"fingerprint", "labels", "string", "timestamp_ns"},
		rows: [][]driver.Value{{uint64(0), map[string]string{"a": "b"}, "hello", time.Now().UnixNano()}}}, nil
}
func (r *fakeRows) Columns() []string { return r.cols }
func (r *fakeRows) Close() error      { return nil }
func (r *fakeRows) Next(dest []driver.Value) error {
	if r.i >= len(r.rows) {
		return io.EOF
	}
	copy(dest, r.rows[r.i])
	r.i++
	return nil
}

type fakeDB struct{ db *sql.DB }

func (f fakeDB) GetName() string { return "fake" }
func (f fakeDB) QueryCtx(ctx context.Context, q string, args ...any) (*sql.Rows, error) {
	return f.db.QueryContext(ctx, q, args...)
}
func (f fakeDB) ExecCtx(ctx context.Context, q string, args ...any) error { return nil }
func (f fakeDB) Conn(ctx context.Context) (*sql.Conn, error)               { return f.db.Conn(ctx) }
func (f fakeDB) Begin() (*sql.Tx, error)                                   { return f.db.Begin() }
func (f fakeDB) Close()                                                    {}

type fakeReg struct{ m *model.DataDatabasesMap }

func (r fakeReg) GetDB(context.Context) (*model.DataDatabasesMap, error) { return r.m, nil }
func (r fakeReg) Run()                                                   {}
func (r fakeReg) Stop()                                                  {}
func (r fakeReg) Ping() error                                            { return nil }

func TestTailFp0(t *testing.T) {
	sql.Register("fakech_tail", fakeDrv{})
	db, _ := sql.Open("fakech_tail", "")
	svc := &QueryRangeService{ServiceData: model.ServiceData{Session: fakeReg{&model.DataDatabasesMap{Config: &config.ClokiBaseDataBase{}, Session: fakeDB{db}}}}}
	w, err := svc.Tail(context.Background(), `{a="b"}`)
	if err != nil {
		t.Fatal(err)
	}
	select {
	case msg := <-w.GetRes():
		w.Close()
		var doc struct {
			Streams []struct {
				Stream map[string]string `json:"stream"`
				Values [][]string        `json:"values"`
			} `json:"streams"`
		}
		if err := json.Unmarshal([]byte(msg.Str), &doc); err != nil {
			t.Fatalf("tail message is not of the documented shape: %v\n%s", err, msg.Str)
		}
		if len(doc.Streams) != 1 || doc.Streams[0].Stream["a"] != "b" || len(doc.Streams[0].Values) != 1 {
			t.Fatalf("entry of the fingerprint-0 series is not grouped under its stream object: %s", msg.Str)
		}
	case <-time.After(5 * time.Second):
		t.Fatal("no tail message")
	}
}
