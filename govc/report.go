package main

import (
	"golang.org/x/tools/go/ssa"
	"bufio"
	"encoding/json"
	"fmt"
	"os"
	"path/filepath"
	"regexp"
	"sort"
	"strings"
	"time"
)

type knownFinding struct {
	Property, Unit, Obligation, What string
}

func loadKnownFindings(path string) (open []knownFinding, fixed []string) {
	f, err := os.Open(path)
	if err != nil {
		return nil, nil
	}
	defer f.Close()
	sc := bufio.NewScanner(f)
	for sc.Scan() {
		line := strings.TrimSpace(sc.Text())
		switch {
		case strings.HasPrefix(line, "fixed:"):
			fixed = append(fixed, line)
		case strings.HasPrefix(line, "finding:"):
			rest := strings.TrimSpace(strings.TrimPrefix(line, "finding:"))
			head, what, _ := strings.Cut(rest, "::")
			kf := knownFinding{What: strings.TrimSpace(what)}
			for _, f := range strings.Fields(head) {
				k, v, _ := strings.Cut(f, "=")
				switch k {
				case "property":
					kf.Property = v
				case "unit":
					kf.Unit = v
				case "obligation":
					kf.Obligation = v
				}
			}
			open = append(open, kf)
		}
	}
	return
}

type expectedFile struct {
	Property    string   `json:"property"`
	Obligations []string `json:"obligations"` // "unit::name" discharged on the unchanged tree
	Units       []string `json:"units"`
	// names of parameters and local variables of each unit on the reference tree, by
	// position: a contract that mentions a name the function no longer declares is
	// re-bound to the variable now at that position (same type) - a pure rename is
	// not a reason to stop verifying, let alone to raise an alarm
	Names map[string]nameHints `json:"names,omitempty"`
}

type nameHints struct {
	Params   []string    `json:"params,omitempty"`
	FreeVars []string    `json:"free_vars,omitempty"`
	Locals   []localHint `json:"locals,omitempty"`
}

type localHint struct {
	Name string `json:"name"`
	Type string `json:"type"`
	Ord  int    `json:"ord"`
}

// namedLocals: the named local variables of fn in source order.
func namedLocals(fn *ssa.Function) []*ssa.Alloc {
	var out []*ssa.Alloc
	add := func(a *ssa.Alloc) {
		switch a.Comment {
		case "", "complit", "rangeindex", "varargs", "slicelit", "makeslice", "new", "defer$stack", "rangeiter":
			return
		}
		if strings.ContainsAny(a.Comment, "$. ") || !a.Pos().IsValid() {
			return
		}
		out = append(out, a)
	}
	for _, a := range fn.Locals {
		add(a)
	}
	for _, b := range fn.Blocks {
		for _, in := range b.Instrs {
			if a, ok := in.(*ssa.Alloc); ok && a.Heap {
				add(a)
			}
		}
	}
	sort.SliceStable(out, func(i, j int) bool { return out[i].Pos() < out[j].Pos() })
	return out
}

func hintsOf(fn *ssa.Function) nameHints {
	var h nameHints
	for _, p := range fn.Params {
		h.Params = append(h.Params, p.Name())
	}
	for _, fv := range fn.FreeVars {
		h.FreeVars = append(h.FreeVars, fv.Name())
	}
	for i, a := range namedLocals(fn) {
		h.Locals = append(h.Locals, localHint{a.Comment, ptrElem(a.Type()).String(), i})
	}
	return h
}

func loadExpected(path string) *expectedFile {
	b, err := os.ReadFile(path)
	if err != nil {
		return nil
	}
	var e expectedFile
	if json.Unmarshal(b, &e) != nil {
		return nil
	}
	return &e
}

var familyRe = regexp.MustCompile(`(~[0-9]+|/site[0-9]+|#[0-9]+)$`)

// family: the contract clause / obligation kind an obligation is an instance of
// (back-edge, call-site and ordinal suffixes removed).
func family(name string) string {
	for {
		n := familyRe.ReplaceAllString(name, "")
		if n == name {
			return n
		}
		name = n
	}
}

func namedKind(k string) bool {
	switch k {
	case "post", "inv", "variant", "lemma":
		return true
	}
	return false
}

// mustExist: obligations whose absence is itself an alarm (the clause that
// carried the property is gone). Loop invariants and variants may legitimately
// disappear when a loop is merged or removed; the postconditions they served
// must still be discharged.
func mustExist(name string) bool {
	return strings.HasPrefix(name, "post#") || strings.HasPrefix(name, "lemma/")
}

type violation struct {
	Unit, Obligation, Reason, Replay string
	Confirmed                        bool
}

func report(o *Options, res *runResult, smtDir string, wall time.Duration) int {
	known, fixed := loadKnownFindings(filepath.Join(o.Verif, "known_findings.txt"))
	expected := loadExpected(filepath.Join(o.Verif, "expected", o.Prop+".json"))
	updateExpected := os.Getenv("GOVC_UPDATE_EXPECTED") == "1"

	var violations []violation
	var knownHit []string
	engineErrors := []string{}
	byKey := map[string]*Obligation{}
	for _, ob := range res.obls {
		byKey[ob.Unit+"::"+ob.Name] = ob
	}
	isKnown := func(unit, obl string) *knownFinding {
		for i := range known {
			k := &known[i]
			if k.Property == o.Prop && k.Unit == unit && k.Obligation == obl {
				return k
			}
		}
		return nil
	}
	expectedSet := map[string]bool{}
	expectedFamilies := map[string]bool{}
	if expected != nil {
		for _, e := range expected.Obligations {
			expectedSet[e] = true
			unit, name, _ := strings.Cut(e, "::")
			expectedFamilies[unit+"::"+family(name)] = true
		}
	}
	replayDir := filepath.Join(o.Verif, "replays", o.Prop)

	for _, u := range res.units {
		for _, e := range u.errs {
			engineErrors = append(engineErrors, u.name+": "+e)
		}
		if len(u.errs) > 0 && expected != nil {
			// the unit verified on the reference tree; its contract no longer applies to the code
			had := false
			for _, e := range expected.Obligations {
				if strings.HasPrefix(e, u.name+"::") {
					had = true
					break
				}
			}
			if had {
				path := writeReplayNote(replayDir, u.name, "contract-binding", "the contract of "+u.name+" verified on the reference tree and can no longer be applied to the changed code:\n"+strings.Join(u.errs, "\n"))
				violations = append(violations, violation{u.name, "contract-binding", "contract no longer applies to the changed code: " + trunc(u.errs[0], 160), path, false})
			}
		}
	}
	for _, m := range res.missing {
		if k := isKnown(m, "target-missing"); k != nil {
			knownHit = append(knownHit, fmt.Sprintf("KNOWN-FINDING: property=%s %s", o.Prop, k.What))
			continue
		}
		path := writeReplayNote(replayDir, m, "target-missing", "contract target "+m+" no longer exists in /repo: the obligations that carried the property are gone")
		violations = append(violations, violation{m, "target-missing", "contract target missing", path, false})
	}
	undecidedNew := []string{}
	for _, ob := range res.obls {
		key := ob.Unit + "::" + ob.Name
		switch ob.Status {
		case "discharged", "cover-ok", "cover-unknown":
		case "cover-failed":
			engineErrors = append(engineErrors, key+": vacuous hypotheses")
		case "malformed":
			engineErrors = append(engineErrors, key+": ill-formed query (generator error): "+trunc(ob.Output, 200))
		case "failed":
			if k := isKnown(ob.Unit, ob.Name); k != nil {
				ob.Known = k.What
				knownHit = append(knownHit, fmt.Sprintf("KNOWN-FINDING: property=%s %s [%s %s]", o.Prop, k.What, shortName(ob.Unit), ob.Name))
				continue
			}
			path, confirmed := replayObligation(o, res, ob, replayDir, smtDir)
			violations = append(violations, violation{ob.Unit, ob.Name, "counterexample: " + ob.Desc, path, confirmed})
		case "undecided":
			if k := isKnown(ob.Unit, ob.Name); k != nil {
				ob.Known = k.What
				knownHit = append(knownHit, fmt.Sprintf("KNOWN-FINDING: property=%s %s [%s %s]", o.Prop, k.What, shortName(ob.Unit), ob.Name))
				continue
			}
			if expectedSet[key] {
				path, confirmed := replayObligationMode(o, res, ob, replayDir, smtDir, false, "obligation was discharged on the reference tree and is now undecided\n\n")
				violations = append(violations, violation{ob.Unit, ob.Name, "was discharged, now undecided", path, confirmed})
			} else if expectedFamilies[ob.Unit+"::"+family(ob.Name)] {
				// a new instance (another back edge, call site or ordinal) of a contract clause
				// that was discharged on the reference tree
				path := writeReplayNote(replayDir, ob.Unit, ob.Name, "a new instance of a clause that was discharged on the reference tree ("+family(ob.Name)+") cannot be discharged\n"+ob.Desc+"\nsolver output:\n"+ob.Output)
				violations = append(violations, violation{ob.Unit, ob.Name, "clause " + family(ob.Name) + " was discharged, this instance is undecided", path, false})
			} else {
				undecidedNew = append(undecidedNew, key)
			}
		}
	}
	// vacuity: a unit whose only obligations were call-site preconditions (no
	// postcondition of its own) and that now generates none of them checks nothing
	if expected != nil && o.Only == "" {
		hadPre := map[string]bool{}
		hasPost := map[string]bool{}
		for _, e := range expected.Obligations {
			unit, name, _ := strings.Cut(e, "::")
			if strings.HasPrefix(name, "pre@") {
				hadPre[unit] = true
			}
			if strings.HasPrefix(name, "post#") {
				hasPost[unit] = true
			}
		}
		nowPre := map[string]bool{}
		for _, ob := range res.obls {
			if strings.HasPrefix(ob.Name, "pre@") {
				nowPre[ob.Unit] = true
			}
		}
		for _, u := range res.units {
			if hadPre[u.name] && !hasPost[u.name] && !nowPre[u.name] && len(u.errs) == 0 {
				path := writeReplayNote(replayDir, u.name, "pre@vanished", "on the reference tree this unit was checked through the preconditions of the functions it calls; none of those calls is generated any more, so nothing about it is verified")
				violations = append(violations, violation{u.name, "pre@vanished", "all call-site precondition obligations of this unit disappeared", path, false})
			}
		}
	}
	// expected obligations that disappeared
	if expected != nil && o.Only == "" {
		unitPresent := map[string]bool{}
		for _, u := range res.units {
			unitPresent[u.name] = true
		}
		for _, e := range expected.Obligations {
			if _, ok := byKey[e]; ok {
				continue
			}
			unit, name, _ := strings.Cut(e, "::")
			if !unitPresent[unit] {
				continue // reported as target-missing
			}
			if !mustExist(name) {
				continue
			}
			if k := isKnown(unit, name); k != nil {
				continue
			}
			uerr := ""
			for _, u := range res.units {
				if u.name == unit && len(u.errs) > 0 {
					uerr = strings.Join(u.errs, "; ")
				}
			}
			path := writeReplayNote(replayDir, unit, name, "obligation "+name+" was generated and discharged on the reference tree and is no longer generated\n"+uerr)
			violations = append(violations, violation{unit, name, "obligation no longer generated", path, false})
		}
	}

	// ---------------------------------------------------------------- output
	total, discharged := 0, 0
	var solverMs int64
	backends := map[string]int{}
	for _, ob := range res.obls {
		if ob.Cover {
			continue
		}
		total++
		solverMs += ob.Ms
		if ob.Status == "discharged" {
			discharged++
			backends[ob.Backend]++
		}
	}
	if o.Verbose {
		for _, ob := range res.obls {
			fmt.Printf("  %-12s %-60s %-14s %5dms  %s\n", ob.Status, shortName(ob.Unit)+" "+ob.Name, ob.Backend, ob.Ms, ob.Pos)
			if ob.Status == "failed" || ob.Status == "undecided" {
				fmt.Printf("      %s\n", ob.Desc)
			}
		}
	}
	for _, e := range engineErrors {
		fmt.Printf("ENGINE-ERROR: %s\n", e)
	}
	for _, k := range knownHit {
		fmt.Println(k)
	}
	for _, u := range undecidedNew {
		fmt.Printf("UNDECIDED (not in the reference set, not counted as proved): %s\n", u)
	}
	for _, v := range violations {
		suffix := ""
		if !v.Confirmed {
			suffix = " no-failing-input-found"
		}
		fmt.Printf("VIOLATION property=%s replay=%s obligation=%s/%s reason=%q%s\n", o.Prop, v.Replay, shortName(v.Unit), v.Obligation, v.Reason, suffix)
	}
	fmt.Printf("govc %s %s: %d units, %d obligations, %d discharged, %d known findings, %d violations, %d undecided-new, %d engine errors, %.1fs (load %.1fs, solver %.1fs)\n",
		o.Prop, o.Tier, len(res.units), total, discharged, len(knownHit), len(violations), len(undecidedNew), len(engineErrors), wall.Seconds(), res.loadSecs, float64(solverMs)/1000)

	if updateExpected {
		ef := expectedFile{Property: o.Prop}
		for _, ob := range res.obls {
			if ob.Status == "discharged" && !ob.Cover {
				ef.Obligations = append(ef.Obligations, ob.Unit+"::"+ob.Name)
			}
		}
		ef.Names = map[string]nameHints{}
		var addHints func(fn *ssa.Function)
		addHints = func(fn *ssa.Function) {
			ef.Names[funcKey(fn)] = hintsOf(fn)
			for _, an := range fn.AnonFuncs {
				addHints(an)
			}
		}
		for _, u := range res.units {
			ef.Units = append(ef.Units, u.name)
			if u.fn != nil {
				addHints(u.fn)
			}
		}
		// contracted functions of /repo that the units call
		if res.prog != nil {
			for key, ct := range res.specs.Contracts {
				if ct.Kind == "func" && !ct.Extern {
					if fn := res.prog.funcs[key]; fn != nil {
						if _, done := ef.Names[key]; !done {
							addHints(fn)
						}
					}
				}
			}
		}
		sort.Strings(ef.Obligations)
		sort.Strings(ef.Units)
		b, _ := json.MarshalIndent(ef, "", " ")
		os.MkdirAll(filepath.Join(o.Verif, "expected"), 0o755)
		os.WriteFile(filepath.Join(o.Verif, "expected", o.Prop+".json"), b, 0o644)
	}

	writeEvidence(o, res, violations, knownHit, undecidedNew, engineErrors, fixed, total, discharged, solverMs, backends, wall)

	if len(violations) > 0 {
		return 1
	}
	if len(engineErrors) > 0 {
		return 2
	}
	return 0
}

func writeReplayNote(dir, unit, obl, text string) string {
	os.MkdirAll(dir, 0o755)
	path := filepath.Join(dir, sanitize(shortName(unit)+"__"+obl)+".txt")
	os.WriteFile(path, []byte("failed obligation: "+unit+" :: "+obl+"\n\n"+text+"\n"), 0o644)
	return path
}

func writeEvidence(o *Options, res *runResult, violations []violation, knownHit, undecidedNew, engineErrors, fixed []string,
	total, discharged int, solverMs int64, backends map[string]int, wall time.Duration) {
	type fnEv struct {
		Name        string `json:"name"`
		File        string `json:"file"`
		Obligations int    `json:"obligations"`
		Discharged  int    `json:"discharged"`
	}
	var fns []fnEv
	trusted := map[string]bool{}
	assumptions := map[string]bool{
		"machine integers are treated as mathematical integers (no wrap-around) except in functions marked 'arith=bv'": true,
		"float64 is treated as real arithmetic (no NaN, Inf or rounding)":                                              true,
		"append returns a slice on a fresh backing array (aliases of the old array are not tracked)":                   true,
		"nil-dereference panics are not checked unless the contract says 'checks=+nil'":                                true,
		"termination is proved only for loops with a 'decreases' clause":                                               true,
		"the SMT translation of go/ssa (NaiveForm) instructions is trusted (govc is the verifier)":                     true,
	}
	var oblSamples []any
	var allObls []any
	for _, u := range res.units {
		fe := fnEv{Name: u.name}
		if u.fn != nil {
			fe.File = u.posString(u.fn.Pos())
		}
		for _, ob := range u.obls {
			if ob.Cover {
				continue
			}
			fe.Obligations++
			if ob.Status == "discharged" {
				fe.Discharged++
			}
		}
		fns = append(fns, fe)
		for k := range u.externsUsed {
			if strings.HasPrefix(k, "~") {
				trusted["assumed contract on a repository function (untagged: proved by no check): "+k[1:]] = true
				continue
			}
			trusted["extern contract: "+k] = true
		}
		for k := range u.uncontractedCalls {
			assumptions["call without contract (heap havocked, result unconstrained): "+k] = true
		}
		for k := range u.notes {
			assumptions[k] = true
		}
		for _, a := range u.axiomsUsed {
			trusted["axiom: "+a] = true
		}
	}
	for _, f := range res.specs.Files {
		if strings.HasSuffix(f, ".spec") {
			trusted["spec file: "+strings.TrimPrefix(f, o.Verif+"/")] = true
		}
	}
	covers, coversOK := 0, 0
	for _, ob := range res.obls {
		if ob.Cover {
			covers++
			if ob.Status == "cover-ok" {
				coversOK++
			}
			continue
		}
		rec := map[string]any{"unit": shortName(ob.Unit), "name": ob.Name, "kind": ob.Kind, "status": ob.Status, "backend": ob.Backend, "ms": ob.Ms, "at": ob.Pos, "what": ob.Desc}
		if ob.Known != "" {
			rec["known_finding"] = ob.Known
		}
		allObls = append(allObls, rec)
		if len(oblSamples) < 4 && ob.Goal != nil && ob.Goal.S != "true" {
			oblSamples = append(oblSamples, map[string]any{"unit": shortName(ob.Unit), "name": ob.Name, "what": ob.Desc, "goal_smt": trunc(ob.Goal.S, 600)})
		}
	}
	if len(oblSamples) == 0 {
		oblSamples = append(oblSamples, "no obligations generated")
	}
	level := "proof"
	cov := map[string]any{
		"obligations":              total,
		"discharged":               discharged,
		"checker_cmd":              fmt.Sprintf("govc -prop %s -tier %s (VCs from go/ssa of /repo; solvers raced per obligation: z3-new 5.1.0, z3 4.8.12, cvc5 1.0)", o.Prop, o.Tier),
		"trusted_base":             sortedKeys(trusted),
		"samples":                  oblSamples,
		"functions_under_contract": fns,
		"obligation_list":          allObls,
		"solver_ms_total":          solverMs,
		"discharged_by_backend":    backends,
		"vacuity_covers":           map[string]int{"run": covers, "satisfiable": coversOK},
		"known_findings_hit":       knownHit,
		"fixed_findings":           fixed,
		"undecided_not_counted":    undecidedNew,
		"engine_errors":            engineErrors,
		"explanation":              "contract-based deductive verification: every obligation is one SMT query generated from the SSA of the function in /repo's working tree and its //@ contract",
	}
	if total == 0 || discharged == 0 {
		level = "other"
	}
	var viol []any
	for _, v := range violations {
		viol = append(viol, map[string]any{"unit": v.Unit, "obligation": v.Obligation, "reason": v.Reason, "replay": v.Replay, "replay_confirmed": v.Confirmed})
	}
	cov["violations_detail"] = viol
	ev := map[string]any{
		"property_id": o.Prop, "tier": o.Tier, "seed": seed(), "level": level,
		"coverage": cov, "assumptions": sortedKeys(assumptions),
		"wall_s": wall.Seconds(), "violations": len(violations),
	}
	b, _ := json.MarshalIndent(ev, "", " ")
	os.MkdirAll(evidenceDir(o), 0o755)
	os.WriteFile(filepath.Join(evidenceDir(o), o.Prop+".json"), b, 0o644)
}

// evidenceDir: /verif/evidence, or GOVC_EVIDENCE_DIR for runs against deliberately
// changed trees (self-test mutants, seeded changes) that must not overwrite the
// evidence of the unchanged tree.
func evidenceDir(o *Options) string {
	if d := os.Getenv("GOVC_EVIDENCE_DIR"); d != "" {
		return d
	}
	if o.Only != "" {
		// a debugging run over a part of the units must not replace the evidence of the full check
		return filepath.Join(os.TempDir(), "govc-partial-evidence")
	}
	return filepath.Join(o.Verif, "evidence")
}
