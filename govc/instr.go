package main

// Semantics of go/ssa instructions (NaiveForm).

import (
	"fmt"
	"go/constant"
	"go/token"
	"go/types"
	"math/big"
	"strings"

	"golang.org/x/tools/go/ssa"
)

func (u *Unit) constVal(c *ssa.Const) Val {
	t := c.Type()
	if c.Value == nil {
		return u.zeroVal(t)
	}
	sort, scalar := u.sortOf(t)
	if !scalar {
		return u.zeroVal(t)
	}
	switch c.Value.Kind() {
	case constant.Bool:
		return BoolLit(constant.BoolVal(c.Value))
	case constant.String:
		s := constant.StringVal(c.Value)
		if sort == SString {
			return smtStringLit(s)
		}
		return u.ctx.StrLit(s)
	case constant.Int:
		bi, _ := new(big.Int).SetString(c.Value.ExactString(), 10)
		if sort.IsBV() {
			return BVLit(bi, sort.BVWidth())
		}
		if sort == SReal {
			return RealLit(new(big.Rat).SetInt(bi))
		}
		return BigLit(bi)
	case constant.Float:
		r, ok := new(big.Rat).SetString(c.Value.ExactString())
		if !ok {
			f, _ := constant.Float64Val(c.Value)
			r = new(big.Rat).SetFloat64(f)
		}
		if sort == SInt {
			if r.IsInt() {
				return BigLit(r.Num())
			}
		}
		return RealLit(r)
	}
	unsupp("constant %s", c)
	return nil
}

func smtStringLit(s string) *Term {
	var b strings.Builder
	b.WriteByte('"')
	for i := 0; i < len(s); i++ {
		c := s[i]
		switch {
		case c == '"':
			b.WriteString(`""`)
		case c >= 32 && c < 127 && c != '\\':
			b.WriteByte(c)
		default:
			fmt.Fprintf(&b, `\u{%x}`, c)
		}
	}
	b.WriteByte('"')
	return &Term{b.String(), SString}
}

func (u *Unit) val(fr *Frame, st *State, v ssa.Value) Val {
	switch v := v.(type) {
	case *ssa.Const:
		return u.constVal(v)
	case *ssa.Parameter:
		for i, p := range fr.fn.Params {
			if p == v {
				return fr.params[i]
			}
		}
	case *ssa.FreeVar:
		for i, p := range fr.fn.FreeVars {
			if p == v {
				return fr.freeVars[i]
			}
		}
	case *ssa.Function:
		return &FnVal{v}
	case *ssa.Builtin:
		return &BuiltinVal{v.Name()}
	case *ssa.Global:
		ref := u.ctx.Const("g!"+v.Pkg.Pkg.Path()+"."+v.Name(), SRef)
		if !u.ctx.declared["gfact!"+ref.S] {
			u.ctx.declared["gfact!"+ref.S] = true
			u.ctx.Axiom(And(Lt(App(SInt, "birth", ref), IntLit(0)), Not(Eq(ref, NilRef))))
		}
		return mkptr(ref, IntLit(0))
	case *ssa.Alloc:
		if isCellAlloc(v) {
			return &CellAddr{v}
		}
	}
	if r, ok := fr.regs[v]; ok {
		return r
	}
	unsupp("value %s (%T) has no symbolic value (defined in an unmodelled instruction?)", v.Name(), v)
	return nil
}

func (u *Unit) term(fr *Frame, st *State, v ssa.Value) *Term {
	x := u.val(fr, st, v)
	t, ok := x.(*Term)
	if !ok {
		unsupp("scalar expected for %s, got %T", v.Name(), x)
	}
	return t
}

func ptrElem(t types.Type) types.Type {
	if p, ok := types.Unalias(t).Underlying().(*types.Pointer); ok {
		return p.Elem()
	}
	return nil
}

func (u *Unit) exec(fr *Frame, st *State, instr ssa.Instruction) {
	switch in := instr.(type) {
	case *ssa.DebugRef:
	case *ssa.Alloc:
		elem := ptrElem(in.Type())
		if isCellAlloc(in) {
			st.cells[in] = u.zeroVal(elem)
			return
		}
		r := u.newRef(st, in.Comment)
		p := mkptr(r, IntLit(0))
		if at, ok := types.Unalias(elem).Underlying().(*types.Array); ok {
			u.zeroArray(st, at.Elem(), r)
			fr.regs[in] = p
			return
		}
		u.storeVal(st, elem, p, u.zeroVal(elem))
		st.locals = append(st.locals, &localObj{p, elem})
		fr.regs[in] = p
	case *ssa.UnOp:
		fr.regs[in] = u.unop(fr, st, in)
	case *ssa.BinOp:
		x, y := u.val(fr, st, in.X), u.val(fr, st, in.Y)
		fr.regs[in] = u.binop(st, in.Op, x, y, in.X.Type(), in.Pos())
	case *ssa.Store:
		u.store(fr, st, in.Addr, u.val(fr, st, in.Val), in.Pos())
	case *ssa.FieldAddr:
		if a, isA := in.X.(*ssa.Alloc); isA && isCellAlloc(a) {
			fr.regs[in] = &CellFieldAddr{a, in.Field}
			return
		}
		base := u.term(fr, st, in.X)
		structT := ptrElem(in.X.Type())
		s := structT.Underlying().(*types.Struct)
		f := s.Field(in.Field)
		u.nilCheck(st, base, in.Pos(), "field "+f.Name())
		if _, nested := u.structOf(f.Type()); nested {
			fr.regs[in] = u.subPtr(structT, f.Name(), base)
		} else {
			sort, _ := u.sortOf(f.Type())
			fr.regs[in] = &AddrVal{Map: fieldMapName(structT, f.Name()), Elem: sort, Ptr: base, Typ: f.Type()}
		}
	case *ssa.Field:
		sv, ok := u.val(fr, st, in.X).(*StructVal)
		if !ok {
			unsupp("Field on non-record %s", in.X.Type())
		}
		fr.regs[in] = sv.Fields[in.Field]
	case *ssa.IndexAddr:
		xt := types.Unalias(in.X.Type()).Underlying()
		idx := u.toInt(u.term(fr, st, in.Index))
		if strings.HasPrefix(idx.S, "(") {
			// an atomic index keeps e-matching of "a[off+i]" patterns working (solvers flatten nested sums)
			idx = u.ctx.Name("idx", idx)
		}
		switch xt.(type) {
		case *types.Slice:
			s := u.term(fr, st, in.X)
			if u.checks["index"] {
				u.addObl(st, "panic/index", fmt.Sprintf("index in range: %s", u.srcOf(in)), in.Pos(), And(Le(IntLit(0), idx), Lt(idx, slen(s))))
			} else {
				u.assume(st, And(Le(IntLit(0), idx), Lt(idx, slen(s))))
			}
			fr.regs[in] = u.ctx.Define("eaddr", mkptr(sarr(s), Eidx(soff(s), idx)))
		case *types.Pointer:
			at, ok := types.Unalias(ptrElem(in.X.Type())).Underlying().(*types.Array)
			if !ok {
				unsupp("IndexAddr on %s", in.X.Type())
			}
			p := u.term(fr, st, in.X)
			if u.checks["index"] {
				u.addObl(st, "panic/index", fmt.Sprintf("array index in range: %s", u.srcOf(in)), in.Pos(), And(Le(IntLit(0), idx), Lt(idx, IntLit(at.Len()))))
			}
			fr.regs[in] = u.ctx.Define("eaddr", mkptr(parr(p), Eidx(pidx(p), idx)))
		default:
			unsupp("IndexAddr on %s", in.X.Type())
		}
	case *ssa.Index:
		xt := types.Unalias(in.X.Type()).Underlying()
		if b, ok := xt.(*types.Basic); ok && b.Info()&types.IsString != 0 {
			s := u.term(fr, st, in.X)
			idx := u.toInt(u.term(fr, st, in.Index))
			if u.checks["index"] {
				u.addObl(st, "panic/index", fmt.Sprintf("string index in range: %s", u.srcOf(in)), in.Pos(), And(Le(IntLit(0), idx), Lt(idx, u.strLen(s))))
			}
			fr.regs[in] = u.strAt(st, s, idx)
			return
		}
		unsupp("Index on %s", in.X.Type())
	case *ssa.Slice:
		fr.regs[in] = u.sliceOp(fr, st, in)
	case *ssa.MakeSlice:
		n := u.toInt(u.term(fr, st, in.Len))
		c := u.toInt(u.term(fr, st, in.Cap))
		if u.checks["make"] {
			u.addObl(st, "panic/make", "make: 0 <= len <= cap", in.Pos(), And(Le(IntLit(0), n), Le(n, c)))
		} else {
			u.assume(st, And(Le(IntLit(0), n), Le(n, c)))
		}
		r := u.newRef(st, "slice")
		elemT := in.Type().Underlying().(*types.Slice).Elem()
		u.zeroArray(st, elemT, r)
		fr.regs[in] = u.ctx.Define("mk", mkslice(r, IntLit(0), n, c))
	case *ssa.MakeMap:
		r := u.newRef(st, "map")
		mt := in.Type().Underlying().(*types.Map)
		if u.mapModelled(mt) {
			u.mapInit(st, mt, r)
		}
		fr.regs[in] = r
	case *ssa.MakeChan:
		fr.regs[in] = u.newRef(st, "chan")
	case *ssa.MakeClosure:
		cv := &ClosureVal{Fn: in.Fn.(*ssa.Function)}
		for _, b := range in.Bindings {
			cv.Bindings = append(cv.Bindings, u.val(fr, st, b))
		}
		fr.regs[in] = cv
	case *ssa.MakeInterface:
		if pe := ptrElem(in.X.Type()); pe != nil {
			if p, ok := u.val(fr, st, in.X).(*Term); ok && p.Sort == SPtr {
				st.boxed = append(st.boxed, &localObj{p, pe})
			}
		}
		u.escape(st, u.val(fr, st, in.X))
		fr.regs[in] = u.makeIface(st, u.val(fr, st, in.X), in.X.Type())
	case *ssa.TypeAssert:
		fr.regs[in] = u.typeAssert(fr, st, in)
	case *ssa.ChangeInterface:
		fr.regs[in] = u.val(fr, st, in.X)
	case *ssa.ChangeType:
		fr.regs[in] = u.changeType(st, u.val(fr, st, in.X), in.X.Type(), in.Type())
	case *ssa.Convert:
		fr.regs[in] = u.convert(st, u.val(fr, st, in.X), in.X.Type(), in.Type())
	case *ssa.Extract:
		tv, ok := u.val(fr, st, in.Tuple).(*TupleVal)
		if !ok {
			unsupp("Extract from non-tuple")
		}
		fr.regs[in] = tv.Elems[in.Index]
	case *ssa.Phi:
		var conds []*Term
		var vals []Val
		for i, pred := range in.Block().Preds {
			c, ok := st.edgeConds()[pred]
			if !ok {
				continue
			}
			conds = append(conds, c)
			vals = append(vals, u.val(fr, st, in.Edges[i]))
		}
		if len(vals) == 0 {
			unsupp("phi without reachable predecessor")
		}
		fr.regs[in] = u.mergeVals(conds, vals)
	case *ssa.Call:
		fr.regs[in] = u.call(fr, st, in.Common(), in.Pos(), in.Type())
	case *ssa.Defer:
		d := deferred{instr: in, call: in.Common()}
		if in.Call.IsInvoke() {
			d.fn = u.val(fr, st, in.Call.Value)
		} else {
			d.fn = u.val(fr, st, in.Call.Value)
		}
		for _, a := range in.Call.Args {
			d.args = append(d.args, u.val(fr, st, a))
		}
		st.defers[fr.id] = append(st.defers[fr.id], d)
	case *ssa.RunDefers:
		ds := st.defers[fr.id]
		st.defers[fr.id] = nil
		for i := len(ds) - 1; i >= 0; i-- {
			d := ds[i]
			u.callVals(fr, st, d.call, d.fn, d.args, d.instr.Pos(), nil, "defer")
		}
	case *ssa.Go:
		u.goStmt(fr, st, in)
	case *ssa.MapUpdate:
		u.mapUpdate(fr, st, in)
	case *ssa.Lookup:
		fr.regs[in] = u.lookup(fr, st, in)
	case *ssa.Range:
		fr.regs[in] = &rangeIter{x: u.val(fr, st, in.X), t: in.X.Type()}
	case *ssa.Next:
		fr.regs[in] = u.next(fr, st, in)
	case *ssa.Send:
		u.send(fr, st, in)
	case *ssa.Select:
		fr.regs[in] = u.selectStmt(fr, st, in)
	case *ssa.SliceToArrayPointer:
		fr.regs[in] = u.freshVal(st, in.Type(), "conv")
		u.note("unmodelled conversion " + in.String())
	case *ssa.MultiConvert:
		fr.regs[in] = u.freshVal(st, in.Type(), "conv")
		u.note("unmodelled conversion " + in.String())
	default:
		unsupp("instruction %T", instr)
	}
}

type rangeIter struct {
	x Val
	t types.Type
}

func (s *State) edgeConds() map[*ssa.BasicBlock]*Term {
	if s.edges == nil {
		return map[*ssa.BasicBlock]*Term{}
	}
	return s.edges
}

func (u *Unit) srcOf(in ssa.Instruction) string {
	return strings.TrimSpace(in.String())
}

func (u *Unit) nilCheck(st *State, p *Term, pos token.Pos, what string) {
	if u.checks["nil"] {
		u.addObl(st, "panic/nil", "non-nil dereference: "+what, pos, Not(Eq(parr(p), NilRef)))
	}
}

func (u *Unit) toInt(t *Term) *Term {
	if t.Sort.IsBV() {
		return mk(SInt, "bv2nat", t)
	}
	return t
}

func (u *Unit) zeroArray(st *State, elemT types.Type, r *Term) {
	if s, ok := u.structOf(elemT); ok {
		for i := 0; i < s.NumFields(); i++ {
			f := s.Field(i)
			if _, nested := u.structOf(f.Type()); nested {
				sub := u.subPtr(elemT, f.Name(), mkptr(r, IntLit(0)))
				u.zeroArray(st, f.Type(), parr(sub))
				continue
			}
			sort, _ := u.sortOf(f.Type())
			name := fieldMapName(elemT, f.Name())
			m := u.heapGet(st, name, sort)
			u.heapSet(st, name, Store(m, r, u.constArray(sort, u.zeroOfSort(sort))))
		}
		return
	}
	sort, _ := u.sortOf(elemT)
	name := elemMapName(sort)
	m := u.heapGet(st, name, sort)
	u.heapSet(st, name, Store(m, r, u.constArray(sort, u.zeroOfSort(sort))))
}

// constArray: the array that is v everywhere. Only literal values may be used
// with (as const ...) portably (cvc5 rejects uninterpreted constants there);
// other zero values get a named array with a defining quantified axiom.
func (u *Unit) constArray(elem Sort, v *Term) *Term {
	as := ArrSort(SInt, elem)
	switch elem {
	case SInt, SReal, SBool:
		return &Term{fmt.Sprintf("((as const %s) %s)", as, v.S), as}
	}
	if elem.IsBV() {
		return &Term{fmt.Sprintf("((as const %s) %s)", as, v.S), as}
	}
	name := "zeroarr!" + sanitize(string(elem))
	z := u.ctx.Const(name, as)
	if !u.ctx.declared[name+"!ax"] {
		u.ctx.declared[name+"!ax"] = true
		u.ctx.Axiom(&Term{fmt.Sprintf("(forall ((i Int)) (! (= (select %s i) %s) :pattern ((select %s i))))", z.S, v.S, z.S), SBool})
	}
	return z
}

func (u *Unit) unop(fr *Frame, st *State, in *ssa.UnOp) Val {
	switch in.Op {
	case token.MUL:
		addr := u.val(fr, st, in.X)
		return u.load(st, addr, ptrElem(in.X.Type()), in.Pos())
	case token.NOT:
		return Not(u.term(fr, st, in.X))
	case token.SUB:
		x := u.term(fr, st, in.X)
		if x.Sort.IsBV() {
			return mk(x.Sort, "bvneg", x)
		}
		return Neg(x)
	case token.XOR:
		x := u.term(fr, st, in.X)
		if x.Sort.IsBV() {
			return mk(x.Sort, "bvnot", x)
		}
		return Sub(Neg(x), IntLit(1))
	case token.ARROW:
		return u.recv(fr, st, in)
	}
	unsupp("unary %s", in.Op)
	return nil
}

func (u *Unit) load(st *State, addr Val, elem types.Type, pos token.Pos) Val {
	switch a := addr.(type) {
	case *CellAddr:
		v, ok := st.cells[a.Alloc]
		if !ok {
			unsupp("local %s has no value here (lost at a join)", a.Alloc.Comment)
		}
		return v
	case *CellFieldAddr:
		sv, ok := st.cells[a.Alloc].(*StructVal)
		if !ok || a.Field >= len(sv.Fields) {
			unsupp("local record %s has no value here", a.Alloc.Comment)
		}
		return sv.Fields[a.Field]
	case *AddrVal:
		u.checkLockHeld(st, a, pos, "read")
		if fv, ok := u.loadLocVal(st, a.Map, a.Elem, a.Ptr); ok {
			return fv
		}
		v := u.ctx.Define("ld", u.loadLoc(st, a.Map, a.Elem, a.Ptr))
		u.assume(st, u.typeFacts(v, a.Typ))
		u.assumeBorn(st, v)
		return v
	case *Term:
		if a.Sort != SPtr {
			unsupp("load through %s", a.Sort)
		}
		u.nilCheck(st, a, pos, "load")
		return u.loadVal(st, elem, a)
	}
	unsupp("load through %T", addr)
	return nil
}

func (u *Unit) store(fr *Frame, st *State, addrV ssa.Value, v Val, pos token.Pos) {
	addr := u.val(fr, st, addrV)
	elem := ptrElem(addrV.Type())
	u.storeTo(st, addr, elem, v, pos)
}

func (u *Unit) storeTo(st *State, addr Val, elem types.Type, v Val, pos token.Pos) {
	_, isCell := addr.(*CellAddr)
	_, isCellField := addr.(*CellFieldAddr)
	if !isCell && !isCellField {
		u.escape(st, v) // a pointer stored into memory becomes reachable from there
	}
	switch a := addr.(type) {
	case *CellAddr:
		st.cells[a.Alloc] = v
	case *CellFieldAddr:
		sv, ok := st.cells[a.Alloc].(*StructVal)
		if !ok || a.Field >= len(sv.Fields) {
			unsupp("local record %s has no value here", a.Alloc.Comment)
		}
		nf := append([]Val{}, sv.Fields...)
		nf[a.Field] = v
		st.cells[a.Alloc] = &StructVal{T: sv.T, Fields: nf}
	case *AddrVal:
		tv, ok := v.(*Term)
		var fwdVal Val
		if !ok {
			if a.Elem == SFn {
				tv = u.reifyFn(v)
			} else if av, isAddr := v.(*AddrVal); isAddr && a.Elem == SPtr {
				// the address of a struct field kept in a pointer field (an adaptor around a
				// column): the map gets an opaque non-nil pointer, loads at the same place
				// get the address back (loadLocVal), any other load of this map is refused
				tv = u.ctx.FreshConst("fieldaddr", SPtr)
				u.assume(st, Not(Eq(parr(tv), NilRef)))
				u.addrMaps[a.Map] = true
				fwdVal = av
			} else {
				unsupp("store of %T into field", v)
			}
		}
		u.checkLockHeld(st, a, pos, "write")
		u.checkWrite(st, a.Map, a.Ptr, pos, "field store")
		u.storeLoc(st, a.Map, a.Elem, a.Ptr, tv)
		if fwdVal != nil {
			if st.fwd == nil {
				st.fwd = map[string]fwdEntry{}
			}
			st.fwd[a.Map] = fwdEntry{heap: st.heap[a.Map], ptr: a.Ptr.S, val: fwdVal}
		}
	case *Term:
		u.nilCheck(st, a, pos, "store")
		if s, ok := u.structOf(elem); ok {
			u.checkStructWrite(st, elem, s, a, pos)
		} else {
			sort, _ := u.sortOf(elem)
			u.checkWrite(st, elemMapName(sort), a, pos, "element store")
		}
		u.storeVal(st, elem, a, v)
	default:
		unsupp("store through %T", addr)
	}
}

func (u *Unit) checkStructWrite(st *State, t types.Type, s *types.Struct, p *Term, pos token.Pos) {
	if len(u.frames) == 0 {
		return
	}
	for i := 0; i < s.NumFields(); i++ {
		f := s.Field(i)
		if ns, nested := u.structOf(f.Type()); nested {
			u.checkStructWrite(st, f.Type(), ns, u.subPtr(t, f.Name(), p), pos)
			continue
		}
		u.checkWrite(st, fieldMapName(t, f.Name()), p, pos, "struct store")
	}
}

func (u *Unit) binop(st *State, op token.Token, xv, yv Val, xt types.Type, pos token.Pos) Val {
	// comparisons of non-scalars
	if op == token.EQL || op == token.NEQ {
		eq := u.valEq(xv, yv)
		if op == token.NEQ {
			return Not(eq)
		}
		return eq
	}
	x, ok1 := xv.(*Term)
	y, ok2 := yv.(*Term)
	if !ok1 || !ok2 {
		unsupp("binary %s on %T, %T", op, xv, yv)
	}
	if x.Sort.IsBV() || y.Sort.IsBV() {
		return u.bvBinop(op, x, y, xt)
	}
	switch x.Sort {
	case SBool:
		switch op {
		case token.AND, token.LAND:
			return And(x, y)
		case token.OR, token.LOR:
			return Or(x, y)
		}
	case SStr:
		switch op {
		case token.ADD:
			r := u.ctx.Define("cat", App(SStr, "strcat", x, y))
			u.assume(st, Eq(App(SInt, "strlen", r), Add(App(SInt, "strlen", x), App(SInt, "strlen", y))))
			return r
		case token.LSS, token.GTR, token.LEQ, token.GEQ:
			lt := u.ctx.Func("strlt", []Sort{SStr, SStr}, SBool)
			switch op {
			case token.LSS:
				return App(SBool, lt, x, y)
			case token.GTR:
				return App(SBool, lt, y, x)
			case token.LEQ:
				return Not(App(SBool, lt, y, x))
			default:
				return Not(App(SBool, lt, x, y))
			}
		}
	case SString:
		switch op {
		case token.ADD:
			return mk(SString, "str.++", x, y)
		case token.LSS:
			return mk(SBool, "str.<", x, y)
		case token.LEQ:
			return mk(SBool, "str.<=", x, y)
		case token.GTR:
			return mk(SBool, "str.<", y, x)
		case token.GEQ:
			return mk(SBool, "str.<=", y, x)
		}
	case SInt, SReal:
		isReal := x.Sort == SReal || y.Sort == SReal
		switch op {
		case token.ADD:
			return Add(x, y)
		case token.SUB:
			return Sub(x, y)
		case token.MUL:
			return Mul(x, y)
		case token.QUO:
			if isReal {
				return mk(SReal, "/", ToReal(x), ToReal(y))
			}
			if u.checks["div"] {
				u.addObl(st, "panic/div", "integer divisor is not zero", pos, Not(Eq(y, IntLit(0))))
			} else {
				u.assume(st, Not(Eq(y, IntLit(0))))
			}
			return u.quotient(x, y)
		case token.REM:
			if u.checks["div"] {
				u.addObl(st, "panic/div", "integer modulus is not zero", pos, Not(Eq(y, IntLit(0))))
			} else {
				u.assume(st, Not(Eq(y, IntLit(0))))
			}
			return u.ctx.Name("rem", App(SInt, "tmod", x, y))
		case token.LSS:
			return Lt(x, y)
		case token.LEQ:
			return Le(x, y)
		case token.GTR:
			return Gt(x, y)
		case token.GEQ:
			return Ge(x, y)
		case token.SHL:
			if k, ok := smallConst(y); ok {
				return Mul(x, BigLit(new(big.Int).Lsh(big.NewInt(1), uint(k))))
			}
			return Mul(x, u.pow2(st, y))
		case token.SHR:
			if k, ok := smallConst(y); ok {
				return u.ctx.Name("shr", mk(SInt, "div", x, BigLit(new(big.Int).Lsh(big.NewInt(1), uint(k)))))
			}
			return u.ctx.Name("shr", mk(SInt, "div", x, u.pow2(st, y)))
		case token.AND, token.OR, token.XOR, token.AND_NOT:
			// bit operations on mathematical integers: uninterpreted, with the few facts needed
			name := map[token.Token]string{token.AND: "bitand", token.OR: "bitor", token.XOR: "bitxor", token.AND_NOT: "bitandnot"}[op]
			f := u.ctx.Func(name, []Sort{SInt, SInt}, SInt)
			r := u.ctx.Define("bit", App(SInt, f, x, y))
			u.bitFacts(name, x, y, App(SInt, f, x, y))
			if op == token.AND {
				u.assume(st, Implies(And(Ge(x, IntLit(0)), Ge(y, IntLit(0))), And(Ge(r, IntLit(0)), Le(r, x), Le(r, y))))
			}
			if op == token.OR || op == token.XOR {
				u.assume(st, Implies(And(Ge(x, IntLit(0)), Ge(y, IntLit(0))), And(Ge(r, IntLit(0)), Le(r, Add(x, y)))))
			}
			if op == token.OR {
				u.assume(st, Implies(And(Ge(x, IntLit(0)), Ge(y, IntLit(0))), And(Ge(r, x), Ge(r, y))))
			}
			return r
		}
	}
	unsupp("binary %s on %s", op, x.Sort)
	return nil
}

// bitFacts: exact meaning of x & c and x | c on non-negative mathematical integers
// when one operand is a constant power of two 2^k (a flag test / a flag set):
//
//	x & 2^k == ((x div 2^k) mod 2) * 2^k        x | 2^k == x + 2^k - (x & 2^k)
//
// stated as ground axioms about the uninterpreted bitand / bitor terms.
func (u *Unit) bitFacts(name string, x, y, r *Term) {
	if name != "bitand" && name != "bitor" {
		return
	}
	v, c := x, y
	cb, ok := smallConstBig(c)
	if !ok {
		v, c = y, x
		cb, ok = smallConstBig(c)
	}
	if !ok || cb.Sign() <= 0 || new(big.Int).And(cb, new(big.Int).Sub(cb, big.NewInt(1))).Sign() != 0 {
		return
	}
	band := u.ctx.Func("bitand", []Sort{SInt, SInt}, SInt)
	andT := App(SInt, band, x, y)
	bit := Mul(mk(SInt, "mod", mk(SInt, "div", v, c), IntLit(2)), c)
	nonneg := Ge(v, IntLit(0))
	if name == "bitand" {
		u.ctx.Axiom(Implies(nonneg, Eq(r, bit)))
		return
	}
	u.ctx.Axiom(Implies(nonneg, And(Eq(andT, bit), Eq(r, Sub(Add(v, c), andT)))))
}

type divRec struct{ x, y, q *Term }

// quotient names x/y (Go's truncating division) and, for a symbolic divisor,
// asserts ground instances of facts the solvers do not find on their own:
// the Euclidean bounds of the quotient and monotonicity against every earlier
// quotient with the same divisor.
func (u *Unit) quotient(x, y *Term) *Term {
	q := u.ctx.Name("quo", App(SInt, "tdiv", x, y))
	if _, isConst := smallConstBig(y); isConst {
		return q
	}
	ypos := Gt(y, IntLit(0))
	qy := Mul(q, y)
	u.ctx.Axiom(Implies(And(ypos, Ge(x, IntLit(0))), And(Le(qy, x), Lt(x, Add(qy, y)), Ge(q, IntLit(0)))))
	u.ctx.Axiom(Implies(And(ypos, Lt(x, IntLit(0))), And(Ge(qy, x), Gt(x, Sub(qy, y)), Le(q, IntLit(0)))))
	for _, r := range u.divs {
		if r.y.S != y.S {
			continue
		}
		u.ctx.Axiom(Implies(ypos, And(Implies(Le(r.x, x), Le(r.q, q)), Implies(Le(x, r.x), Le(q, r.q)))))
	}
	u.divs = append(u.divs, divRec{x, y, q})
	return q
}

func smallConstBig(t *Term) (*big.Int, bool) {
	n, ok := new(big.Int).SetString(t.S, 10)
	return n, ok
}

func smallConst(t *Term) (int, bool) {
	var k int
	if _, err := fmt.Sscanf(t.S, "%d", &k); err == nil && fmt.Sprint(k) == t.S && k >= 0 && k < 128 {
		return k, true
	}
	return 0, false
}

func (u *Unit) pow2(st *State, n *Term) *Term {
	f := u.ctx.Func("pow2", []Sort{SInt}, SInt)
	if !u.ctx.declared["pow2!ax"] {
		u.ctx.declared["pow2!ax"] = true
		u.ctx.Axiom(&Term{"(= (pow2 0) 1)", SBool})
		u.ctx.Axiom(&Term{"(forall ((n Int)) (! (=> (>= n 0) (and (> (pow2 n) 0) (= (pow2 (+ n 1)) (* 2 (pow2 n))))) :pattern ((pow2 n))))", SBool})
	}
	return App(SInt, f, n)
}

func (u *Unit) bvBinop(op token.Token, x, y *Term, xt types.Type) Val {
	if !x.Sort.IsBV() {
		x = u.intToBV(x, y.Sort)
	}
	if !y.Sort.IsBV() {
		y = u.intToBV(y, x.Sort)
	}
	if x.Sort != y.Sort {
		// shifts may have differing operand widths
		y = u.bvResize(y, x.Sort.BVWidth())
	}
	s := x.Sort
	switch op {
	case token.ADD:
		return mk(s, "bvadd", x, y)
	case token.SUB:
		return mk(s, "bvsub", x, y)
	case token.MUL:
		return mk(s, "bvmul", x, y)
	case token.QUO:
		return mk(s, "bvudiv", x, y)
	case token.REM:
		return mk(s, "bvurem", x, y)
	case token.AND:
		return mk(s, "bvand", x, y)
	case token.OR:
		return mk(s, "bvor", x, y)
	case token.XOR:
		return mk(s, "bvxor", x, y)
	case token.AND_NOT:
		return mk(s, "bvand", x, mk(s, "bvnot", y))
	case token.SHL:
		return mk(s, "bvshl", x, y)
	case token.SHR:
		return mk(s, "bvlshr", x, y)
	case token.LSS:
		return mk(SBool, "bvult", x, y)
	case token.LEQ:
		return mk(SBool, "bvule", x, y)
	case token.GTR:
		return mk(SBool, "bvugt", x, y)
	case token.GEQ:
		return mk(SBool, "bvuge", x, y)
	}
	unsupp("bit-vector %s", op)
	return nil
}

func (u *Unit) intToBV(x *Term, s Sort) *Term {
	return mk(s, fmt.Sprintf("(_ int2bv %d)", s.BVWidth()), x)
}

func (u *Unit) bvResize(x *Term, w int) *Term {
	xw := x.Sort.BVWidth()
	s := Sort(fmt.Sprintf("(_ BitVec %d)", w))
	switch {
	case xw == w:
		return x
	case xw < w:
		return mk(s, fmt.Sprintf("(_ zero_extend %d)", w-xw), x)
	default:
		return mk(s, fmt.Sprintf("(_ extract %d 0)", w-1), x)
	}
}

func (u *Unit) valEq(a, b Val) *Term {
	switch a := a.(type) {
	case *Term:
		bt, ok := b.(*Term)
		if !ok {
			unsupp("comparison of %T and %T", a, b)
		}
		if a.Sort == SSlice || bt.Sort == SSlice {
			// only comparison with nil is legal Go
			other := a
			if a.S == NilSlice.S {
				other = bt
			}
			return Eq(sarr(other), NilRef)
		}
		if a.Sort == SPtr && bt.Sort == SPtr && (a.S == NilPtr.S || bt.S == NilPtr.S) {
			// nil-ness of a pointer is "its object reference is nilref" (one notion everywhere)
			other := a
			if a.S == NilPtr.S {
				other = bt
			}
			return Eq(parr(other), NilRef)
		}
		if a.Sort.IsBV() && !bt.Sort.IsBV() {
			bt = u.intToBV(bt, a.Sort)
		}
		if bt.Sort.IsBV() && !a.Sort.IsBV() {
			a = u.intToBV(a, bt.Sort)
		}
		return Eq(a, bt)
	case *StructVal:
		bs, ok := b.(*StructVal)
		if !ok {
			unsupp("comparison of record and %T", b)
		}
		var cs []*Term
		for i := range a.Fields {
			cs = append(cs, u.valEq(a.Fields[i], bs.Fields[i]))
		}
		return And(cs...)
	case *FnVal, *ClosureVal, *BoundVal:
		if bt, ok := b.(*Term); ok && bt.S == NilFn.S {
			return False
		}
	}
	if at, ok := b.(*Term); ok && at.S == NilFn.S {
		switch a.(type) {
		case *FnVal, *ClosureVal, *BoundVal:
			return False
		}
	}
	unsupp("comparison of %T and %T", a, b)
	return nil
}

func (u *Unit) sliceOp(fr *Frame, st *State, in *ssa.Slice) Val {
	xt := types.Unalias(in.X.Type()).Underlying()
	var lo, hi *Term
	if in.Low != nil {
		lo = u.toInt(u.term(fr, st, in.Low))
	} else {
		lo = IntLit(0)
	}
	switch tt := xt.(type) {
	case *types.Pointer:
		if at, ok := types.Unalias(tt.Elem()).Underlying().(*types.Array); ok {
			p := u.term(fr, st, in.X)
			n := IntLit(at.Len())
			if in.High != nil {
				hi = u.toInt(u.term(fr, st, in.High))
			} else {
				hi = n
			}
			goal := And(Le(IntLit(0), lo), Le(lo, hi), Le(hi, n))
			if u.checks["slice"] {
				u.addObl(st, "panic/slice", "array slice bounds in range: "+u.srcOf(in), in.Pos(), goal)
			} else {
				u.assume(st, goal)
			}
			return u.ctx.Define("sl", mkslice(parr(p), Add(pidx(p), lo), Sub(hi, lo), Sub(n, lo)))
		}
	case *types.Slice:
		s := u.term(fr, st, in.X)
		if in.High != nil {
			hi = u.toInt(u.term(fr, st, in.High))
		} else {
			hi = slen(s)
		}
		capT := scap(s)
		goal := And(Le(IntLit(0), lo), Le(lo, hi), Le(hi, capT))
		if in.Max != nil {
			mx := u.toInt(u.term(fr, st, in.Max))
			goal = And(Le(IntLit(0), lo), Le(lo, hi), Le(hi, mx), Le(mx, capT))
			capT = mx
		}
		if u.checks["slice"] {
			u.addObl(st, "panic/slice", "slice bounds in range: "+u.srcOf(in), in.Pos(), goal)
		} else {
			u.assume(st, goal)
		}
		return u.ctx.Define("sl", mkslice(sarr(s), Add(soff(s), lo), Sub(hi, lo), Sub(capT, lo)))
	case *types.Basic:
		if tt.Info()&types.IsString != 0 {
			s := u.term(fr, st, in.X)
			if in.High != nil {
				hi = u.toInt(u.term(fr, st, in.High))
			} else {
				hi = u.strLen(s)
			}
			goal := And(Le(IntLit(0), lo), Le(lo, hi), Le(hi, u.strLen(s)))
			if u.checks["slice"] {
				u.addObl(st, "panic/slice", "string slice bounds in range: "+u.srcOf(in), in.Pos(), goal)
			} else {
				u.assume(st, goal)
			}
			return u.subStr(st, s, lo, hi)
		}
	}
	unsupp("slice of %s", in.X.Type())
	return nil
}

func (u *Unit) strLen(s *Term) *Term {
	if s.Sort == SString {
		return mk(SInt, "str.len", s)
	}
	return App(SInt, "strlen", s)
}

func (u *Unit) strAt(st *State, s, i *Term) *Term {
	if s.Sort == SString {
		return mk(SInt, "str.to_code", mk(SString, "str.at", s, i))
	}
	f := u.ctx.Func("strat", []Sort{SStr, SInt}, SInt)
	r := u.ctx.Define("ch", App(SInt, f, s, i))
	u.assume(st, And(Le(IntLit(0), r), Le(r, IntLit(255))))
	return r
}

func (u *Unit) subStr(st *State, s, lo, hi *Term) *Term {
	if s.Sort == SString {
		return mk(SString, "str.substr", s, lo, Sub(hi, lo))
	}
	f := u.ctx.Func("substr", []Sort{SStr, SInt, SInt}, SStr)
	r := u.ctx.Define("sub", App(SStr, f, s, lo, hi))
	u.assume(st, Eq(App(SInt, "strlen", r), Sub(hi, lo)))
	u.assume(st, Implies(And(Eq(lo, IntLit(0)), Eq(hi, App(SInt, "strlen", s))), Eq(r, s)))
	return r
}

// ---------------------------------------------------------------------------
// interfaces

func (u *Unit) typeTag(t types.Type) *Term {
	key := typeKey(t)
	if id, ok := u.prog.typeTags[key]; ok {
		return IntLit(int64(id))
	}
	id := len(u.prog.typeTags) + 1
	u.prog.typeTags[key] = id
	return IntLit(int64(id))
}

func (u *Unit) ifacePrelude() {
	if !u.ctx.declared["iface!ax"] {
		u.ctx.declared["iface!ax"] = true
		u.ctx.Axiom(&Term{"(= (itag nil_Iface) 0)", SBool})
	}
}

func (u *Unit) makeIface(st *State, x Val, t types.Type) Val {
	u.ifacePrelude()
	if _, isIface := types.Unalias(t).Underlying().(*types.Interface); isIface {
		return x
	}
	tag := u.typeTag(t)
	if xt, ok := x.(*Term); ok {
		box := u.ctx.Func("box!"+typeKey(t), []Sort{xt.Sort}, SIface)
		unbox := u.ctx.Func("unbox!"+typeKey(t), []Sort{SIface}, xt.Sort)
		b := u.ctx.Define("iface", App(SIface, box, xt))
		u.assume(st, And(Eq(App(SInt, "itag", b), tag), Eq(App(xt.Sort, unbox, b), xt)))
		return b
	}
	b := u.ctx.FreshConst("iface", SIface)
	u.assume(st, Eq(App(SInt, "itag", b), tag))
	return b
}

func (u *Unit) typeAssert(fr *Frame, st *State, in *ssa.TypeAssert) Val {
	u.ifacePrelude()
	x := u.term(fr, st, in.X)
	var ok *Term
	var v Val
	if _, isIface := types.Unalias(in.AssertedType).Underlying().(*types.Interface); isIface {
		okc := u.ctx.FreshConst("assert_ok", SBool)
		u.assume(st, Implies(okc, Not(Eq(x, NilIface))))
		ok = okc
		v = x
	} else {
		ok = Eq(App(SInt, "itag", x), u.typeTag(in.AssertedType))
		sort, scalar := u.sortOf(in.AssertedType)
		if scalar {
			unbox := u.ctx.Func("unbox!"+typeKey(in.AssertedType), []Sort{SIface}, sort)
			t := u.ctx.Define("unbox", App(sort, unbox, x))
			u.assume(st, Implies(ok, u.typeFacts(t, in.AssertedType)))
			// an interface value is its dynamic type and value: boxing the value again gives it back
			box := u.ctx.Func("box!"+typeKey(in.AssertedType), []Sort{sort}, SIface)
			u.assume(st, Implies(ok, Eq(App(SIface, box, t), x)))
			v = t
		} else {
			v = u.freshVal(st, in.AssertedType, "unboxed")
		}
	}
	if in.CommaOk {
		return &TupleVal{Elems: []Val{v, ok}}
	}
	if u.checks["assert"] {
		u.addObl(st, "panic/assert", "type assertion succeeds: "+u.srcOf(in), in.Pos(), ok)
	} else {
		u.assume(st, ok)
	}
	return v
}

func (u *Unit) changeType(st *State, x Val, from, to types.Type) Val {
	if xt, ok := x.(*Term); ok {
		ts, scalar := u.sortOf(to)
		if scalar && ts != xt.Sort {
			return u.convert(st, x, from, to)
		}
		return x
	}
	if sv, ok := x.(*StructVal); ok {
		return &StructVal{T: to, Fields: sv.Fields}
	}
	return x
}

func (u *Unit) convert(st *State, x Val, from, to types.Type) Val {
	xt, ok := x.(*Term)
	if !ok {
		unsupp("conversion of %T", x)
	}
	ts, _ := u.sortOf(to)
	if ts == xt.Sort {
		if ts == SInt {
			// narrowing conversions are assumed value-preserving (reported assumption)
			if lo, hi, ok := intRange(to); ok {
				flo, fhi, ok2 := intRange(from)
				if ok2 && (flo.Cmp(lo) < 0 || fhi.Cmp(hi) > 0) {
					u.note("integer conversion " + from.String() + " -> " + to.String() + " assumed value-preserving")
				}
			}
		}
		return xt
	}
	switch {
	case xt.Sort == SInt && ts == SReal:
		return ToReal(xt)
	case xt.Sort == SReal && ts == SInt:
		return u.ctx.Define("trunc", ToInt(xt))
	case xt.Sort.IsBV() && ts.IsBV():
		return u.bvResize(xt, ts.BVWidth())
	case xt.Sort.IsBV() && ts == SInt:
		return mk(SInt, "bv2nat", xt)
	case xt.Sort == SInt && ts.IsBV():
		return u.intToBV(xt, ts)
	case xt.Sort.IsBV() && ts == SReal:
		return ToReal(mk(SInt, "bv2nat", xt))
	case (xt.Sort == SStr || xt.Sort == SString) && ts == SSlice:
		// string -> []byte / []rune : fresh slice of that length
		r := u.newRef(st, "bytes")
		f := u.ctx.Func("bytesof!"+string(xt.Sort), []Sort{xt.Sort}, ArrSort(SInt, SInt))
		name := elemMapName(SInt)
		if u.bvMode {
			f = u.ctx.Func("bytesofbv!"+string(xt.Sort), []Sort{xt.Sort}, ArrSort(SInt, SBV8))
			name = elemMapName(SBV8)
			m := u.heapGet(st, name, SBV8)
			u.heapSet(st, name, Store(m, r, App(ArrSort(SInt, SBV8), f, xt)))
		} else {
			m := u.heapGet(st, name, SInt)
			u.heapSet(st, name, Store(m, r, App(ArrSort(SInt, SInt), f, xt)))
		}
		n := u.strLen(xt)
		bs := u.ctx.Define("bytes", mkslice(r, IntLit(0), n, n))
		u.assume(st, Eq(u.strOfBytes(st, bs, xt.Sort), xt))
		if lit, isLit := u.ctx.StrLitTable()[xt.S]; isLit && len(lit) > 0 {
			// the bytes of a string literal are known: all of a short one, else the first and the last
			asort := ArrSort(SInt, SInt)
			if u.bvMode {
				asort = ArrSort(SInt, SBV8)
			}
			arr := App(asort, f, xt)
			idx := []int{0, len(lit) - 1}
			if len(lit) <= 8 {
				idx = idx[:0]
				for k := range lit {
					idx = append(idx, k)
				}
			}
			for _, k := range idx {
				if u.bvMode {
					u.assume(st, Eq(Select(arr, IntLit(int64(k))), &Term{fmt.Sprintf("#x%02x", lit[k]), SBV8}))
				} else {
					u.assume(st, Eq(Select(arr, IntLit(int64(k))), IntLit(int64(lit[k]))))
				}
			}
		}
		return bs
	case xt.Sort == SSlice && (ts == SStr || ts == SString):
		// []byte -> string: an uninterpreted function of the byte array contents
		return u.strOfBytes(st, xt, ts)
	case xt.Sort == SPtr && ts == SPtr:
		return xt
	}
	res := u.freshVal(st, to, "conv")
	u.note(fmt.Sprintf("unmodelled conversion %s -> %s (result unconstrained)", from, to))
	return res
}

// strOfBytes: string(b) as a function of the backing array value, offset and length.
func (u *Unit) strOfBytes(st *State, b *Term, ts Sort) *Term {
	esort := SInt
	if u.bvMode {
		esort = SBV8
	}
	m := u.heapGet(st, elemMapName(esort), esort)
	f := u.ctx.Func("str_of_bytes!"+sanitize(string(esort))+"!"+sanitize(string(ts)), []Sort{ArrSort(SInt, esort), SInt, SInt}, ts)
	res := u.ctx.Define("str", App(ts, f, Select(m, sarr(b)), soff(b), slen(b)))
	u.assume(st, Eq(u.strLen(res), slen(b)))
	return res
}

// ---------------------------------------------------------------------------
// maps

func (u *Unit) mapNames(mt *types.Map) (dom, val, ln string, ks, vs Sort) {
	ks, ok1 := u.sortOf(mt.Key())
	vs, ok2 := u.sortOf(mt.Elem())
	if !ok1 || !ok2 {
		unsupp("map with structured key/value %s", mt)
	}
	base := sanitize(string(ks)) + "." + sanitize(string(vs))
	return "MD!" + base, "MV!" + base, "ML!" + base, ks, vs
}

// Maps are stored as Ref -> (Array K V) in dedicated "heap" entries whose
// sort is not HeapSort; they are kept in st.heap under their own names.
func (u *Unit) mapGet(st *State, name string, sort Sort) *Term {
	if t, ok := st.heap[name]; ok {
		return t
	}
	t := u.ctx.Const(fmt.Sprintf("%s@%d", name, st.epoch), sort)
	st.heap[name] = t
	u.rawSorts[name] = sort
	u.linkBase(st, name, t)
	return t
}

func (u *Unit) mapInit(st *State, mt *types.Map, r *Term) {
	dom, _, ln, ks, _ := u.mapNames(mt)
	ds := ArrSort(SRef, ArrSort(ks, SBool))
	d := u.mapGet(st, dom, ds)
	st.heap[dom] = u.ctx.Define(dom, Store(d, r, &Term{fmt.Sprintf("((as const %s) false)", ArrSort(ks, SBool)), ArrSort(ks, SBool)}))
	l := u.mapGet(st, ln, ArrSort(SRef, SInt))
	st.heap[ln] = u.ctx.Define(ln, Store(l, r, IntLit(0)))
}

func (u *Unit) mapModelled(mt *types.Map) bool {
	_, ok1 := u.sortOf(mt.Key())
	_, ok2 := u.sortOf(mt.Elem())
	return ok1 && ok2
}

func (u *Unit) mapUpdate(fr *Frame, st *State, in *ssa.MapUpdate) {
	mt := in.Map.Type().Underlying().(*types.Map)
	if !u.mapModelled(mt) {
		u.checkMapWrite(st, u.term(fr, st, in.Map), in.Pos())
		u.escape(st, u.val(fr, st, in.Value))
		u.note("map with structured key/value " + mt.String() + ": contents not modelled (reads are unconstrained)")
		return
	}
	dom, val, ln, ks, vs := u.mapNames(mt)
	m := u.term(fr, st, in.Map)
	k := u.term(fr, st, in.Key)
	v := u.term(fr, st, in.Value)
	u.checkMapWrite(st, m, in.Pos())
	d := u.mapGet(st, dom, ArrSort(SRef, ArrSort(ks, SBool)))
	vv := u.mapGet(st, val, ArrSort(SRef, ArrSort(ks, vs)))
	l := u.mapGet(st, ln, ArrSort(SRef, SInt))
	had := Select(Select(d, m), k)
	st.heap[ln] = u.ctx.Define(ln, Store(l, m, Ite(had, Select(l, m), Add(Select(l, m), IntLit(1)))))
	st.heap[dom] = u.ctx.Define(dom, Store(d, m, Store(Select(d, m), k, True)))
	st.heap[val] = u.ctx.Define(val, Store(vv, m, Store(Select(vv, m), k, v)))
}

func (u *Unit) checkMapWrite(st *State, m *Term, pos token.Pos) {
	for _, fs := range u.frames {
		if fs.all {
			continue
		}
		alts := []*Term{Ge(App(SInt, "birth", m), fs.since)}
		for _, it := range fs.items {
			if it.Map == "map" {
				alts = append(alts, Eq(m, it.Ptr))
			}
			if it.Map == "*allocated*" {
				alts = append(alts, Ge(App(SInt, "birth", m), u.entry.now))
			}
		}
		u.addObl(st, "frame", "map write allowed by "+fs.why, pos, Or(alts...))
	}
}

func (u *Unit) lookup(fr *Frame, st *State, in *ssa.Lookup) Val {
	if mt, ok := in.X.Type().Underlying().(*types.Map); ok {
		if !u.mapModelled(mt) {
			v := u.freshVal(st, mt.Elem(), "mapval")
			if in.CommaOk {
				return &TupleVal{Elems: []Val{v, u.ctx.FreshConst("has", SBool)}}
			}
			return v
		}
		dom, val, _, ks, vs := u.mapNames(mt)
		m := u.term(fr, st, in.X)
		k := u.term(fr, st, in.Index)
		d := u.mapGet(st, dom, ArrSort(SRef, ArrSort(ks, SBool)))
		vv := u.mapGet(st, val, ArrSort(SRef, ArrSort(ks, vs)))
		has := u.ctx.Define("has", Select(Select(d, m), k))
		raw := u.ctx.Define("mv", Select(Select(vv, m), k))
		u.assume(st, Implies(has, u.typeFacts(raw, mt.Elem())))
		v := Ite(has, raw, u.zeroOfSort(vs))
		if in.CommaOk {
			return &TupleVal{Elems: []Val{v, has}}
		}
		return v
	}
	// string index
	s := u.term(fr, st, in.X)
	idx := u.toInt(u.term(fr, st, in.Index))
	if u.checks["index"] {
		u.addObl(st, "panic/index", "string index in range: "+u.srcOf(in), in.Pos(), And(Le(IntLit(0), idx), Lt(idx, u.strLen(s))))
	}
	return u.strAt(st, s, idx)
}

func (u *Unit) next(fr *Frame, st *State, in *ssa.Next) Val {
	it, ok := u.val(fr, st, in.Iter).(*rangeIter)
	if !ok {
		unsupp("Next on unknown iterator")
	}
	okc := u.ctx.FreshConst("next_ok", SBool)
	if in.IsString {
		s := it.x.(*Term)
		i := u.ctx.FreshConst("next_i", SInt)
		r := u.ctx.FreshConst("next_r", SInt)
		u.assume(st, Implies(okc, And(Le(IntLit(0), i), Lt(i, u.strLen(s)), Le(IntLit(0), r), Le(r, IntLit(0x10FFFF)))))
		return &TupleVal{Elems: []Val{okc, i, r}}
	}
	mt := it.t.Underlying().(*types.Map)
	if !u.mapModelled(mt) {
		return &TupleVal{Elems: []Val{okc, u.freshVal(st, mt.Key(), "next_k"), u.freshVal(st, mt.Elem(), "next_v")}}
	}
	dom, val, _, ks, vs := u.mapNames(mt)
	m := it.x.(*Term)
	k := u.ctx.FreshConst("next_k", ks)
	d := u.mapGet(st, dom, ArrSort(SRef, ArrSort(ks, SBool)))
	vv := u.mapGet(st, val, ArrSort(SRef, ArrSort(ks, vs)))
	v := u.ctx.Define("next_v", Select(Select(vv, m), k))
	u.assume(st, Implies(okc, And(Select(Select(d, m), k), u.typeFacts(k, mt.Key()), u.typeFacts(v, mt.Elem()))))
	return &TupleVal{Elems: []Val{okc, k, v}}
}

// ---------------------------------------------------------------------------
// channels (ghost message invariant only)

func (u *Unit) recv(fr *Frame, st *State, in *ssa.UnOp) Val {
	ct := in.X.Type().Underlying().(*types.Chan)
	if u.checks["nilchan"] {
		// opt-in (flag checks=+nilchan): a receive from a nil channel blocks forever
		if ch, isT := u.val(fr, st, in.X).(*Term); isT && ch.Sort == SRef {
			u.addObl(st, "block/nilchan", "receive from a channel that is not nil (a nil channel blocks forever): "+u.srcOf(in), in.Pos(), Not(Eq(ch, NilRef)))
		}
	}
	v := u.freshVal(st, ct.Elem(), "recv")
	u.note("channel receive: value unconstrained (buffering/blocking/closing not modelled)")
	if in.CommaOk {
		ok := u.ctx.FreshConst("recv_ok", SBool)
		return &TupleVal{Elems: []Val{v, ok}}
	}
	return v
}

// atPseudo proves the `at <kind> label: e` clauses of the unit's contract at a site that is
// not a call of a named function (a channel send, a close): args are bound as arg0, arg1, ..
func (u *Unit) atPseudo(fr *Frame, st *State, kind, desc string, pos token.Pos, args []envVar) {
	// a function literal called in place runs on the caller's goroutine: what it sends or
	// closes is sent or closed by the function that called it
	for fr != nil && fr.contract == nil {
		fr = fr.parent
	}
	if fr == nil {
		return
	}
	for _, at := range fr.contract.AtCalls {
		if strings.TrimSuffix(at.Callee, "$") != kind {
			continue
		}
		label := at.Clause.Label
		if label == "" {
			label = "1"
		}
		u.counters["at@"+at.Callee+"#"+label]++
		name := fmt.Sprintf("at@%s#%s/site%d", at.Callee, label, u.counters["at@"+at.Callee+"#"+label])
		env := u.envFor(fr, st, u.entry, nil)
		env.scopeTolerant = true
		if env.bound == nil {
			env.bound = map[string]envVar{}
		}
		for i, a := range args {
			env.bound[fmt.Sprintf("arg%d", i)] = a
		}
		goal, inScope := func() (g *Term, ok bool) {
			defer func() {
				if r := recover(); r != nil {
					if _, is := r.(notInScope); is {
						g, ok = nil, false
						return
					}
					panic(r)
				}
			}()
			return u.evalBoolF(env, st, at.Clause.Expr), true
		}()
		if u.atApplied == nil {
			u.atApplied = map[string]int{}
		}
		if !inScope {
			u.counters["at@"+at.Callee+"#"+label]--
			u.atApplied[at.Callee+"#"+label] += 0
			continue
		}
		u.atApplied[at.Callee+"#"+label]++
		u.addOblNamed(st, "at", name, desc+at.Clause.Src, pos, goal)
	}
}

func (u *Unit) send(fr *Frame, st *State, in *ssa.Send) {
	v := u.val(fr, st, in.X)
	// `at chan.send label: e`: proved right before every channel send of the unit, with
	// the channel bound as arg0 and the value sent as arg1 (what a unit hands to the
	// goroutine on the other end is the only thing a contract can say about a send)
	u.atPseudo(fr, st, "chan.send", "at the channel send: ", in.Pos(), []envVar{{u.val(fr, st, in.Chan), in.Chan.Type()}, {v, in.X.Type()}})
	// built-in ghost `sentLastStr` (when a spec declares it): the last string a unit
	// sent on a channel of strings - what a streaming writer has to have sent last
	// before it may return
	if g, ok := u.prog.specs.GhostVars["sentLastStr"]; ok {
		if t, isT := v.(*Term); isT {
			if _, sort := u.resolveType(g.GoType, g.PkgPath); sort == t.Sort {
				u.storeLoc(st, "G!sentLastStr", sort, ghostPtr, t)
			}
		}
	}
	u.escape(st, v)
	u.note("channel send: no effect on modelled state")
}

func (u *Unit) selectStmt(fr *Frame, st *State, in *ssa.Select) Val {
	// result tuple: (index int, recvOk bool, r_0 T_0, ... r_n-1 T_n-1)
	idx := u.ctx.FreshConst("select_idx", SInt)
	lo := IntLit(0)
	if !in.Blocking {
		lo = IntLit(-1)
	}
	u.assume(st, And(Le(lo, idx), Lt(idx, IntLit(int64(len(in.States))))))
	tv := &TupleVal{Elems: []Val{idx, u.ctx.FreshConst("select_ok", SBool)}}
	for _, s := range in.States {
		if s.Dir == types.RecvOnly {
			ct := s.Chan.Type().Underlying().(*types.Chan)
			tv.Elems = append(tv.Elems, u.freshVal(st, ct.Elem(), "select_recv"))
		}
	}
	u.note("select: nondeterministic choice among cases")
	return tv
}

func (u *Unit) goStmt(fr *Frame, st *State, in *ssa.Go) {
	// The spawned function is a verification unit of its own (when it has a
	// contract); for the spawner the statement has no effect on modelled state
	// except that the callee's precondition must hold here.
	c := in.Common()
	defer func() {
		// the goroutine runs concurrently from here on: what it can reach has escaped
		u.escape(st, u.val(fr, st, c.Value))
		for _, a := range c.Args {
			u.escape(st, u.val(fr, st, a))
		}
	}()
	if fn := c.StaticCallee(); fn != nil {
		if ct := u.prog.specs.Contracts[funcKey(fn)]; ct != nil {
			var args []Val
			for _, a := range c.Args {
				args = append(args, u.val(fr, st, a))
			}
			saved := u.fvCall
			if mc, ok := c.Value.(*ssa.MakeClosure); ok {
				var bind []Val
				for _, b := range mc.Bindings {
					bind = append(bind, u.val(fr, st, b))
				}
				u.fvCall = closureFV(fn, bind)
			}
			u.checkPre(fr, st, ct, fn.Signature, args, in.Pos(), funcKey(fn), nil)
			u.fvCall = saved
		}
	}
	u.note("go statement: spawned goroutine not executed in the spawner's unit")
}
