package main

import (
	"fmt"
	"go/token"
	"go/types"
	"golang.org/x/tools/go/ssa"
	"runtime/debug"
	"strings"
)

// Run generates the obligations of the unit.
func (u *Unit) Run() {
	defer func() {
		if r := recover(); r != nil {
			if us, ok := r.(unsupported); ok {
				u.errs = append(u.errs, us.msg)
				return
			}
			u.errs = append(u.errs, fmt.Sprintf("internal error: %v\n%s", r, debug.Stack()))
		}
	}()
	if u.lemma != nil {
		u.runLemma()
		return
	}
	fn := u.fn
	fr := u.newFrame(fn, nil)
	st := &State{pc: True, guard: True, cells: map[*ssaAlloc]Val{}, heap: map[string]*Term{}, defers: map[int][]deferred{}}
	st.now = u.ctx.Const("now0", SInt)
	u.assume(st, Ge(st.now, IntLit(0)))
	for _, p := range fn.Params {
		v := u.freshVal(st, p.Type(), "p_"+p.Name())
		fr.params = append(fr.params, v)
		u.entryVals[p.Name()] = v
		u.paramTypes[p.Name()] = p.Type()
	}
	if fn.Signature.Recv() != nil && len(fr.params) > 0 {
		if t, ok := fr.params[0].(*Term); ok && t.Sort == SPtr {
			// a method body runs with a non-nil receiver unless it never dereferences it;
			// stated as an assumption of the unit
			u.assume(st, Not(Eq(parr(t), NilRef)))
			u.note("receiver assumed non-nil")
		}
	}
	var fvPtrs []*Term
	for _, fv := range fn.FreeVars {
		p := u.ctx.Const("fv_"+fv.Name(), SPtr)
		u.assume(st, And(Not(Eq(parr(p), NilRef)), Lt(App(SInt, "birth", parr(p)), st.now), Eq(pidx(p), IntLit(0))))
		for _, q := range fvPtrs {
			u.assume(st, Not(Eq(parr(p), parr(q))))
		}
		fvPtrs = append(fvPtrs, p)
		fr.freeVars = append(fr.freeVars, p)
		u.freeVarPtrs[fv.Name()] = freeVarInfo{p, ptrElem(fv.Type())}
	}
	u.entry = st.clone()
	ct := u.contract
	env := u.envFor(nil, st, u.entry, nil)
	// interface refinement: the unit may assume only what the interface method's
	// contract requires, and must establish what it ensures
	var ic *Contract
	var ienv func(st, old *State, results []Val) *Env
	if key := ct.Flags["implements"]; key != "" {
		ic = u.prog.specs.Contracts[qualify(key, ct.PkgPath)]
		if ic == nil {
			ic = u.prog.specs.Contracts[key]
		}
		if ic == nil {
			unsupp("implements=%s: no such interface contract", key)
		}
		ienv = func(s, old *State, results []Val) *Env {
			vars, _ := u.bindArgsNamed(fn.Signature, fr.params, true, ic.ParamNames)
			e := &Env{u: u, st: s, old: old, vars: vars, pkgPath: ic.PkgPath, fvOverride: map[string]freeVarInfo{}, results: results}
			rs := fn.Signature.Results()
			for i := 0; i < rs.Len(); i++ {
				e.resultTypes = append(e.resultTypes, rs.At(i).Type())
			}
			return e
		}
		ie := ienv(st, u.entry, nil)
		for _, r := range ic.Requires {
			u.assume(st, u.evalBoolF(ie, st, r.Expr))
		}
		for i, r := range ct.Requires {
			u.addOblNamed(st, "refines", fmt.Sprintf("refines/pre#%d", i+1), "own precondition follows from the interface contract: "+r.Src, fn.Pos(), u.evalBoolF(env, st, r.Expr))
		}
	}
	u.applyGhostAssigns(ct.GhostInits, env, st)
	for _, r := range ct.Requires {
		u.assume(st, u.evalBoolF(env, st, r.Expr))
	}
	u.entry = st.clone()
	u.addCover(st, "cover/pre", fn.Pos(), True)
	if ct.HasModifies && !ct.ModifiesAll {
		fs := &FrameSet{since: st.now, why: "modifies clause of " + shortName(u.name)}
		for _, m := range ct.Modifies {
			fs.items = append(fs.items, u.evalLoc(env, m.Expr, m.Src)...)
		}
		u.frames = []*FrameSet{fs}
	}
	if ic != nil && ic.HasModifies && !ic.ModifiesAll {
		ifs := &FrameSet{since: st.now, why: "modifies clause of interface method " + shortName(ic.Full)}
		ie := ienv(st, u.entry, nil)
		for _, m := range ic.Modifies {
			ifs.items = append(ifs.items, u.evalLoc(ie, m.Expr, m.Src)...)
		}
		u.frames = append(u.frames, ifs)
	}
	if want := ct.Flags["defers-first"]; want != "" {
		// structural obligation: the function body starts by deferring the named
		// recover wrapper (nothing that can panic runs before it)
		ok := false
	scan:
		for _, in := range fn.Blocks[0].Instrs {
			switch x := in.(type) {
			case *ssa.Defer:
				// the recover wrapper must be deferred DIRECTLY (recover() only works in the
				// deferred function itself); other defers (close, unlock) may come before it
				if callee := x.Call.StaticCallee(); callee != nil && strings.HasSuffix(funcKey(callee), want) {
					ok = true
					break scan
				}
				continue
			case *ssa.Call:
				if b, isB := x.Call.Value.(*ssa.Builtin); isB && strings.HasPrefix(b.Name(), "ssa:") {
					continue
				}
				break scan
			case *ssa.Go, *ssa.Send, *ssa.Panic:
				break scan
			}
		}
		u.addOblNamed(st, "structure", "structure/defers-first", "the body starts with `defer "+want+"`: a panic in it is recovered", fn.Pos(), BoolLit(ok))
	}
	if want := ct.Flags["defers-before"]; want != "" {
		// structural obligation "A<B": in the entry block the defer of A is registered
		// before the defer of B, so B runs first (a recover wrapper that reports on a
		// channel must run before the deferred close of that channel)
		a, b, _ := strings.Cut(want, "<")
		ia, ib := -1, -1
		for k, in := range fn.Blocks[0].Instrs {
			d, isD := in.(*ssa.Defer)
			if !isD {
				continue
			}
			name := ""
			if callee := d.Call.StaticCallee(); callee != nil {
				name = funcKey(callee)
			} else if bi, isB := d.Call.Value.(*ssa.Builtin); isB {
				name = bi.Name()
			}
			if ia < 0 && strings.HasSuffix(name, a) {
				ia = k
			}
			if ib < 0 && strings.HasSuffix(name, b) {
				ib = k
			}
		}
		u.addOblNamed(st, "structure", "structure/defers-before", "`defer "+a+"` is registered before `defer "+b+"` (so "+b+" runs first)", fn.Pos(), BoolLit(ia >= 0 && ib >= 0 && ia < ib))
	}
	if want := ct.Flags["drains"]; want != "" {
		// structural obligation "drains=1,3": loop N - a range over a channel - is left
		// only through its header, i.e. when the channel is closed: no return, break or
		// goto leaves it from inside the body (the sender on the other end would stay
		// blocked on its send for ever)
		loops, _, _ := findLoops(fn)
		for _, ord := range strings.Split(want, ",") {
			ord = strings.TrimSpace(ord)
			var li *loopInfo
			for _, l := range loops {
				if fmt.Sprint(l.ordinal) == ord {
					li = l
				}
			}
			ok := li != nil
			isChanRange := false
			if li != nil {
				for _, in := range li.header.Instrs {
					if uo, isU := in.(*ssa.UnOp); isU && uo.Op == token.ARROW {
						isChanRange = true
					}
				}
				for b := range li.blocks {
					if b == li.header {
						continue
					}
					for _, sc := range b.Succs {
						if !li.blocks[sc] {
							ok = false
						}
					}
				}
			}
			u.addOblNamed(st, "structure", "structure/drains#"+ord, "loop "+ord+" reads its channel until it is closed: nothing leaves the loop from inside its body", fn.Pos(), BoolLit(ok && isChanRange))
		}
	}
	if fn.Synthetic == "package initializer" && fn.Pkg != nil {
		// the run that matters is the first one: the guard is still down
		if g, ok := fn.Pkg.Members["init$guard"].(*ssa.Global); ok {
			if gp, isT := u.val(nil, st, g).(*Term); isT {
				u.storeVal(st, types.Typ[types.Bool], gp, False)
			}
		}
	}
	exit, results := u.execBody(fr, st)
	if ct != nil {
		for _, at := range ct.AtCalls {
			label := at.Clause.Label
			if label == "" {
				label = "1"
			}
			if u.counters["at@"+at.Callee+"#"+label] == 0 {
				// nothing to prove: said in the evidence, so that a misspelt anchor does not pass for a proof
				u.note("`at " + at.Callee + " " + label + "` of " + shortName(funcKey(fn)) + " matched no site in the unit (it holds vacuously)")
			}
		}
	}
	for k, n := range u.atApplied {
		if n == 0 {
			panic(unsupported{"contract expression: `at " + k + "` names variables that are in scope at none of the matching calls"})
		}
	}
	for _, pl := range u.pendingLock {
		if u.lockedInvs[pl.inv] {
			u.obls = append(u.obls, pl.obl)
		}
	}
	penv := u.envFor(nil, exit, u.entry, results)
	penv.fr = fr
	penv.paramsAtEntry = true
	if results == nil {
		penv.results = []Val{}
	}
	u.applyGhostSets(ct, penv, exit)
	if ct.Flags["boundary"] != "" && len(ct.Ensures) > 0 {
		// the function is the boundary to an external system (a database): its ensures
		// describe that system's answer and are assumed at call sites, not proved from the
		// body; what it sends (at-call assertions), its frame and its checks are proved
		u.note("boundary function " + shortName(funcKey(fn)) + ": its ensures clauses describe the external system and are assumed, not proved")
	} else {
		for i, e := range ct.Ensures {
			name := fmt.Sprintf("post#%d", i+1)
			if e.Label != "" {
				name = "post#" + e.Label
			}
			u.addOblNamed(exit, "post", name, "postcondition: "+e.Src, fn.Pos(), u.evalBoolF(penv, exit, e.Expr))
		}
	}
	for i, e := range ct.Checks {
		name := fmt.Sprintf("post#check.%d", i+1)
		if e.Label != "" {
			name = "post#" + e.Label
		}
		u.addOblNamed(exit, "post", name, "exit check: "+e.Src, fn.Pos(), u.evalBoolF(penv, exit, e.Expr))
	}
	if ic != nil {
		ie := ienv(exit, u.entry, penv.results)
		for i, e := range ic.Ensures {
			name := fmt.Sprintf("post#iface.%d", i+1)
			if e.Label != "" {
				name = "post#iface." + e.Label
			}
			u.addOblNamed(exit, "post", name, "postcondition of the interface method: "+e.Src, fn.Pos(), u.evalBoolF(ie, exit, e.Expr))
		}
	}
}

func (u *Unit) runLemma() {
	st := &State{pc: True, guard: True, cells: map[*ssaAlloc]Val{}, heap: map[string]*Term{}, defers: map[int][]deferred{}}
	st.now = u.ctx.Const("now0", SInt)
	u.entry = st
	env := &Env{u: u, st: st, old: st, vars: map[string]envVar{}, pkgPath: u.lemma.PkgPath}
	goal := u.evalBool(env, u.lemma.Clause.Expr)
	u.addOblNamed(st, "lemma", "lemma/"+u.lemma.Name, "lemma: "+u.lemma.Clause.Src, 0, goal)
}

type freeVarInfo struct {
	p *Term
	t types.Type
}

// axiomsInto asserts the package-level axioms into the unit's context.
func (u *Unit) loadAxioms() {
	for _, ax := range u.prog.specs.Lemmas {
		if !ax.Axiom {
			continue
		}
		if u.bvMode != (ax.Flags["arith"] == "bv") {
			continue
		}
		func() {
			defer func() {
				if r := recover(); r != nil {
					u.errs = append(u.errs, fmt.Sprintf("axiom %s: %v", ax.Name, r))
				}
			}()
			st := &State{pc: True, guard: True, cells: map[*ssaAlloc]Val{}, heap: map[string]*Term{}, defers: map[int][]deferred{}}
			st.now = u.ctx.Const("now0", SInt)
			env := &Env{u: u, st: st, old: st, vars: map[string]envVar{}, pkgPath: ax.PkgPath}
			u.ctx.Axiom(u.evalBool(env, ax.Clause.Expr))
			u.axiomsUsed = append(u.axiomsUsed, ax.Name)
		}()
	}
}

func unitTitle(u *Unit) string {
	return strings.TrimPrefix(u.name, "github.com/metrico/qryn/")
}
