package main

// Contract expression language: Go expressions extended with
//   old(e)  result / result0..n  forall i, j int :: e   exists ...
//   a ==> b   a <==> b   c ? a : b
// Parsed by a small Pratt parser.

import (
	"strconv"
	"fmt"
	"math/big"
	"strings"
	"unicode"
)

type Expr interface{ exprNode() }

type (
	EIdent struct{ Name string }
	EInt   struct{ Val *big.Int }
	EFloat struct{ Val *big.Rat }
	EStr   struct{ Val string }
	EBin   struct {
		Op   string
		L, R Expr
	}
	EUn struct {
		Op string
		X  Expr
	}
	ESel struct {
		X    Expr
		Name string
	}
	EIdx struct{ X, I Expr }
	ESliceE struct {
		X      Expr
		Lo, Hi Expr
	}
	ECall struct {
		Fn   string
		Recv Expr // method-style call on a value: recv.Fn(args)
		Args []Expr
	}
	EQuant struct {
		Forall bool
		Vars   []QVar
		Body   Expr
	}
	ECond struct{ C, A, B Expr }
	QVar  struct{ Name, Type string }
)

func (*EIdent) exprNode()  {}
func (*EInt) exprNode()    {}
func (*EFloat) exprNode()  {}
func (*EStr) exprNode()    {}
func (*EBin) exprNode()    {}
func (*EUn) exprNode()     {}
func (*ESel) exprNode()    {}
func (*EIdx) exprNode()    {}
func (*ESliceE) exprNode() {}
func (*ECall) exprNode()   {}
func (*EQuant) exprNode()  {}
func (*ECond) exprNode()   {}

type etoken struct {
	kind string // id, int, float, str, op, eof
	text string
}

func lexExpr(s string) ([]etoken, error) {
	var toks []etoken
	i := 0
	ops := []string{"<==>", "==>", "::", "&&", "||", "==", "!=", "<=", ">=", "<<", ">>", "&^",
		"+", "-", "*", "/", "%", "<", ">", "!", "(", ")", "[", "]", ",", ".", "?", ":", "&", "|", "^", "{", "}"}
	for i < len(s) {
		c := s[i]
		if c == ' ' || c == '\t' || c == '\n' {
			i++
			continue
		}
		if unicode.IsLetter(rune(c)) || c == '_' || c == '$' {
			j := i
			for j < len(s) && (unicode.IsLetter(rune(s[j])) || unicode.IsDigit(rune(s[j])) || s[j] == '_' || s[j] == '$') {
				j++
			}
			toks = append(toks, etoken{"id", s[i:j]})
			i = j
			continue
		}
		if c >= '0' && c <= '9' {
			j := i
			isFloat := false
			if strings.HasPrefix(s[i:], "0x") {
				j += 2
				for j < len(s) && strings.ContainsRune("0123456789abcdefABCDEF_", rune(s[j])) {
					j++
				}
			} else {
				for j < len(s) && (s[j] >= '0' && s[j] <= '9' || s[j] == '_') {
					j++
				}
				if j+1 < len(s) && s[j] == '.' && s[j+1] >= '0' && s[j+1] <= '9' {
					isFloat = true
					j++
					for j < len(s) && s[j] >= '0' && s[j] <= '9' {
						j++
					}
				}
				if j < len(s) && (s[j] == 'e' || s[j] == 'E') {
					k := j + 1
					if k < len(s) && (s[k] == '+' || s[k] == '-') {
						k++
					}
					if k < len(s) && s[k] >= '0' && s[k] <= '9' {
						isFloat = true
						for k < len(s) && s[k] >= '0' && s[k] <= '9' {
							k++
						}
						j = k
					}
				}
			}
			if isFloat {
				toks = append(toks, etoken{"float", s[i:j]})
			} else {
				toks = append(toks, etoken{"int", s[i:j]})
			}
			i = j
			continue
		}
		if c == '"' {
			// a Go string literal when it is one (all escapes: \x1a, \000, \b, ...)
			if k := goStringEnd(s, i); k > 0 {
				if v, err := strconv.Unquote(s[i : k+1]); err == nil {
					toks = append(toks, etoken{"str", v})
					i = k + 1
					continue
				}
			}
			j := i + 1
			var b strings.Builder
			for j < len(s) && s[j] != '"' {
				if s[j] == '\\' && j+1 < len(s) {
					j++
					switch s[j] {
					case 'n':
						b.WriteByte('\n')
					case 't':
						b.WriteByte('\t')
					case '\\':
						b.WriteByte('\\')
					case '"':
						b.WriteByte('"')
					default:
						b.WriteByte('\\')
						b.WriteByte(s[j])
					}
				} else {
					b.WriteByte(s[j])
				}
				j++
			}
			if j >= len(s) {
				return nil, fmt.Errorf("unterminated string in %q", s)
			}
			toks = append(toks, etoken{"str", b.String()})
			i = j + 1
			continue
		}
		matched := false
		for _, op := range ops {
			if strings.HasPrefix(s[i:], op) {
				toks = append(toks, etoken{"op", op})
				i += len(op)
				matched = true
				break
			}
		}
		if !matched {
			return nil, fmt.Errorf("unexpected character %q in %q", c, s)
		}
	}
	toks = append(toks, etoken{"eof", ""})
	return toks, nil
}

type exprParser struct {
	toks []etoken
	pos  int
	src  string
}

func ParseExpr(s string) (e Expr, err error) {
	toks, err := lexExpr(s)
	if err != nil {
		return nil, err
	}
	p := &exprParser{toks: toks, src: s}
	defer func() {
		if r := recover(); r != nil {
			if pe, ok := r.(parseErr); ok {
				err = fmt.Errorf("%s in %q", string(pe), s)
				return
			}
			panic(r)
		}
	}()
	e = p.parse(0)
	if p.peek().kind != "eof" {
		p.fail("unexpected %q", p.peek().text)
	}
	return e, nil
}

type parseErr string

func (p *exprParser) fail(f string, a ...any) { panic(parseErr(fmt.Sprintf(f, a...))) }
func (p *exprParser) peek() etoken            { return p.toks[p.pos] }
func (p *exprParser) next() etoken            { t := p.toks[p.pos]; p.pos++; return t }
func (p *exprParser) isOp(s string) bool {
	t := p.peek()
	return t.kind == "op" && t.text == s
}
func (p *exprParser) expect(s string) {
	if !p.isOp(s) {
		p.fail("expected %q, found %q", s, p.peek().text)
	}
	p.pos++
}

var binPrec = map[string]int{
	"<==>": 1, "==>": 2, "?": 3, "||": 4, "&&": 5,
	"==": 6, "!=": 6, "<": 6, "<=": 6, ">": 6, ">=": 6,
	"+": 7, "-": 7, "|": 7, "^": 7,
	"*": 8, "/": 8, "%": 8, "<<": 8, ">>": 8, "&": 8, "&^": 8,
}

func (p *exprParser) parse(minPrec int) Expr {
	lhs := p.unary()
	for {
		t := p.peek()
		if t.kind != "op" {
			return lhs
		}
		prec, ok := binPrec[t.text]
		if !ok || prec < minPrec {
			return lhs
		}
		p.pos++
		switch t.text {
		case "?":
			a := p.parse(0)
			p.expect(":")
			b := p.parse(prec)
			lhs = &ECond{lhs, a, b}
		case "==>":
			rhs := p.parse(prec) // right assoc
			lhs = &EBin{"==>", lhs, rhs}
		default:
			rhs := p.parse(prec + 1)
			lhs = &EBin{t.text, lhs, rhs}
		}
	}
}

func (p *exprParser) unary() Expr {
	t := p.peek()
	if t.kind == "op" {
		switch t.text {
		case "!", "-", "^", "*", "&":
			p.pos++
			x := p.unary()
			return &EUn{t.text, x}
		}
	}
	if t.kind == "id" && (t.text == "forall" || t.text == "exists") {
		p.pos++
		q := &EQuant{Forall: t.text == "forall"}
		for {
			var names []string
			for {
				n := p.next()
				if n.kind != "id" {
					p.fail("quantifier variable expected")
				}
				names = append(names, n.text)
				if p.isOp(",") {
					p.pos++
					continue
				}
				break
			}
			// type: sequence of tokens up to :: or ,
			var ty strings.Builder
			depth := 0
			for !p.isOp("::") && !(p.isOp(",") && depth == 0) && p.peek().kind != "eof" {
				if p.isOp("[") {
					depth++
				} else if p.isOp("]") {
					depth--
				}
				ty.WriteString(p.next().text)
			}
			if ty.Len() == 0 {
				p.fail("quantifier type expected")
			}
			for _, n := range names {
				q.Vars = append(q.Vars, QVar{n, ty.String()})
			}
			if p.isOp(",") {
				p.pos++
				continue
			}
			break
		}
		p.expect("::")
		q.Body = p.parse(0)
		return q
	}
	return p.postfix(p.primary())
}

func (p *exprParser) primary() Expr {
	t := p.next()
	switch t.kind {
	case "int":
		v, ok := new(big.Int).SetString(strings.ReplaceAll(t.text, "_", ""), 0)
		if !ok {
			p.fail("bad integer %q", t.text)
		}
		return &EInt{v}
	case "float":
		v, ok := new(big.Rat).SetString(t.text)
		if !ok {
			p.fail("bad float %q", t.text)
		}
		return &EFloat{v}
	case "str":
		return &EStr{t.text}
	case "id":
		if p.isOp("(") {
			p.pos++
			args := p.args()
			return &ECall{Fn: t.text, Args: args}
		}
		return &EIdent{t.text}
	case "op":
		if t.text == "(" {
			e := p.parse(0)
			p.expect(")")
			return e
		}
	}
	p.fail("unexpected %q", t.text)
	return nil
}

func (p *exprParser) args() []Expr {
	var args []Expr
	if p.isOp(")") {
		p.pos++
		return args
	}
	for {
		args = append(args, p.parse(0))
		if p.isOp(",") {
			p.pos++
			continue
		}
		p.expect(")")
		return args
	}
}

func (p *exprParser) postfix(x Expr) Expr {
	for {
		switch {
		case p.isOp("."):
			p.pos++
			n := p.next()
			if n.kind != "id" && n.kind != "int" {
				p.fail("field name expected")
			}
			if p.isOp("(") {
				p.pos++
				args := p.args()
				x = &ECall{Fn: n.text, Recv: x, Args: args}
			} else {
				x = &ESel{x, n.text}
			}
		case p.isOp("["):
			p.pos++
			var lo, hi Expr
			if !p.isOp(":") {
				lo = p.parse(0)
			}
			if p.isOp(":") {
				p.pos++
				if !p.isOp("]") {
					hi = p.parse(0)
				}
				p.expect("]")
				x = &ESliceE{x, lo, hi}
			} else {
				p.expect("]")
				x = &EIdx{x, lo}
			}
		default:
			return x
		}
	}
}

func exprString(e Expr) string {
	switch e := e.(type) {
	case *EIdent:
		return e.Name
	case *EInt:
		return e.Val.String()
	case *EFloat:
		return e.Val.FloatString(6)
	case *EStr:
		return fmt.Sprintf("%q", e.Val)
	case *EBin:
		return "(" + exprString(e.L) + " " + e.Op + " " + exprString(e.R) + ")"
	case *EUn:
		return e.Op + exprString(e.X)
	case *ESel:
		return exprString(e.X) + "." + e.Name
	case *EIdx:
		return exprString(e.X) + "[" + exprString(e.I) + "]"
	case *ESliceE:
		s := exprString(e.X) + "["
		if e.Lo != nil {
			s += exprString(e.Lo)
		}
		s += ":"
		if e.Hi != nil {
			s += exprString(e.Hi)
		}
		return s + "]"
	case *ECall:
		var as []string
		for _, a := range e.Args {
			as = append(as, exprString(a))
		}
		pre := ""
		if e.Recv != nil {
			pre = exprString(e.Recv) + "."
		}
		return pre + e.Fn + "(" + strings.Join(as, ", ") + ")"
	case *EQuant:
		q := "exists"
		if e.Forall {
			q = "forall"
		}
		var vs []string
		for _, v := range e.Vars {
			vs = append(vs, v.Name+" "+v.Type)
		}
		return "(" + q + " " + strings.Join(vs, ", ") + " :: " + exprString(e.Body) + ")"
	case *ECond:
		return "(" + exprString(e.C) + " ? " + exprString(e.A) + " : " + exprString(e.B) + ")"
	}
	return "?"
}

// goStringEnd: index of the closing quote of the interpreted string literal that starts at s[i], or -1.
func goStringEnd(s string, i int) int {
	for j := i + 1; j < len(s); j++ {
		switch s[j] {
		case '\\':
			j++
		case '"':
			return j
		}
	}
	return -1
}
