package main

import (
	"encoding/json"
	"flag"
	"fmt"
	"os"
	"path/filepath"
	"sort"
	"strings"
	"time"
)

type Options struct {
	Repo     string
	Verif    string
	Prop     string
	Tier     string
	Only     string // restrict to units whose name contains this
	KeepSMT  string
	Verbose  bool
	NoReplay bool
	Timeout  time.Duration
	Workers  int
}

func main() {
	var o Options
	flag.StringVar(&o.Repo, "repo", "/repo", "repository root")
	flag.StringVar(&o.Verif, "verif", "/verif", "verification root")
	flag.StringVar(&o.Prop, "prop", "", "property id")
	flag.StringVar(&o.Tier, "tier", "quick", "quick|thorough")
	flag.StringVar(&o.Only, "only", "", "only units containing this substring")
	flag.StringVar(&o.KeepSMT, "keep-smt", "", "directory to keep SMT queries in")
	flag.BoolVar(&o.Verbose, "v", false, "verbose")
	flag.BoolVar(&o.NoReplay, "no-replay", false, "skip replays")
	flag.DurationVar(&o.Timeout, "timeout", 0, "per-obligation solver timeout")
	flag.IntVar(&o.Workers, "workers", 4, "parallel obligations (each races three solvers)")
	flag.Parse()
	os.Setenv("PATH", goToolchainBin+":"+os.Getenv("PATH"))
	for _, kv := range []string{"GOFLAGS=-mod=mod", "GOPROXY=off", "GOSUMDB=off", "GOTOOLCHAIN=local", "CGO_ENABLED=0"} {
		k, v, _ := strings.Cut(kv, "=")
		os.Setenv(k, v)
	}
	if o.Timeout == 0 {
		o.Timeout = 20 * time.Second
		if o.Tier == "thorough" {
			o.Timeout = 60 * time.Second
		}
	}
	if o.Prop == "" {
		fmt.Fprintln(os.Stderr, "usage: govc -prop Cxx [-tier quick|thorough]")
		os.Exit(2)
	}
	os.Exit(runCheck(&o))
}

type runResult struct {
	units    []*Unit
	obls     []*Obligation
	loadErr  error
	missing  []string
	specs    *Specs
	prog     *Program
	loadSecs float64
}

func hasProp(props []string, p string) bool {
	for _, x := range props {
		if x == p {
			return true
		}
	}
	return false
}

// generate loads the program and produces all obligations of a property.
func generate(o *Options) *runResult {
	res := &runResult{}
	specs := NewSpecs()
	res.specs = specs
	files, err := findContractFiles(o.Repo)
	if err != nil {
		res.loadErr = err
		return res
	}
	for _, f := range sortedKeys(files) {
		if err := specs.ParseFile(f, files[f]); err != nil {
			res.loadErr = err
			return res
		}
	}
	if err := specs.LoadSpecDir(filepath.Join(o.Verif, "specs")); err != nil {
		res.loadErr = err
		return res
	}
	pkgSet := map[string]bool{}
	var targets []*Contract
	for _, k := range sortedKeys(specs.Contracts) {
		c := specs.Contracts[k]
		if c.Extern || c.Kind != "func" || c.PkgPath == "" || !hasProp(c.Props, o.Prop) {
			continue
		}
		if o.Only != "" && !strings.Contains(c.Full, o.Only) {
			continue
		}
		targets = append(targets, c)
		pkgSet[c.PkgPath] = true
	}
	var lemmas []*Lemma
	for _, l := range specs.Lemmas {
		if !l.Axiom && hasProp(l.Props, o.Prop) && (o.Only == "" || strings.Contains(l.Name, o.Only)) {
			lemmas = append(lemmas, l)
			if l.PkgPath != "" {
				pkgSet[l.PkgPath] = true
			}
		}
	}
	var sweeps []*Sweep
	for _, sw := range specs.Sweeps {
		if hasProp(sw.Props, o.Prop) && (o.Only == "" || strings.Contains("sweep "+sw.Kind, o.Only)) {
			sweeps = append(sweeps, sw)
			if sw.Kind == "embeds" || sw.Kind == "jsontags" {
				pkgSet[sw.PkgPath] = true
				continue
			}
			for _, pk := range sw.Pkgs {
				pkgSet[pk] = true
			}
		}
	}
	if len(targets) == 0 && len(lemmas) == 0 && len(sweeps) == 0 {
		res.loadErr = fmt.Errorf("no contracts tagged %s found under %s (contract files: %d)", o.Prop, o.Repo, len(files))
		return res
	}
	t0 := time.Now()
	prog, err := LoadProgram(o.Repo, sortedKeys(pkgSet), specs)
	res.loadSecs = time.Since(t0).Seconds()
	if err != nil {
		res.loadErr = err
		return res
	}
	res.prog = prog
	if ef := loadExpected(filepath.Join(o.Verif, "expected", o.Prop+".json")); ef != nil {
		prog.nameHints = ef.Names
	}
	for _, c := range targets {
		fn := prog.funcs[c.Full]
		if fn == nil {
			res.missing = append(res.missing, c.Full)
			continue
		}
		u := prog.NewUnit(fn, c)
		u.loadAxioms()
		u.Run()
		res.units = append(res.units, u)
		res.obls = append(res.obls, u.obls...)
	}
	for _, sw := range sweeps {
		u := prog.runSweep(sw)
		res.units = append(res.units, u)
		res.obls = append(res.obls, u.obls...)
	}
	for _, l := range lemmas {
		u := prog.NewUnit(nil, nil)
		u.lemma = l
		u.name = "lemma " + l.Name
		if l.Flags["arith"] == "bv" {
			u.bvMode = true
		}
		if l.Flags["strings"] == "smt" {
			u.smtStrings = true
		}
		u.loadAxioms()
		u.Run()
		res.units = append(res.units, u)
		res.obls = append(res.obls, u.obls...)
	}
	return res
}

func runCheck(o *Options) int {
	start := time.Now()
	res := generate(o)
	if res.loadErr != nil {
		fmt.Fprintf(os.Stderr, "govc: %v\n", res.loadErr)
		// A tree that does not load cannot be verified: this is an engine error, not a property verdict.
		writeEvidenceError(o, res.loadErr.Error(), time.Since(start).Seconds())
		return 2
	}
	dir := o.KeepSMT
	if dir == "" {
		d, err := os.MkdirTemp("/var/tmp", "govc-smt-")
		if err != nil {
			fmt.Fprintln(os.Stderr, err)
			return 2
		}
		dir = d
		defer os.RemoveAll(d)
	} else {
		os.MkdirAll(dir, 0o755)
	}
	solveAll(res.obls, o.Timeout, o.Workers, dir, o.Tier == "thorough")
	return report(o, res, dir, time.Since(start))
}

func writeEvidenceError(o *Options, msg string, wall float64) {
	ev := map[string]any{
		"property_id": o.Prop, "tier": o.Tier, "seed": seed(), "level": "other",
		"coverage": map[string]any{"explanation": "engine error, nothing was verified: " + msg},
		"wall_s":   wall, "violations": 0,
	}
	b, _ := json.MarshalIndent(ev, "", " ")
	os.MkdirAll(evidenceDir(o), 0o755)
	os.WriteFile(filepath.Join(evidenceDir(o), o.Prop+".json"), b, 0o644)
}

func seed() int {
	var s int
	fmt.Sscanf(os.Getenv("VERIF_SEED"), "%d", &s)
	return s
}

func sortObls(obls []*Obligation) {
	sort.SliceStable(obls, func(i, j int) bool {
		if obls[i].Unit != obls[j].Unit {
			return obls[i].Unit < obls[j].Unit
		}
		return false
	})
}
