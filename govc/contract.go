package main

// Parser for //@ contract blocks (files <pkg>/verif_contracts.go in /repo,
// guarded by build tag verif, and /verif/specs/*.spec for extern code).

import (
	"bufio"
	"fmt"
	"os"
	"path/filepath"
	"regexp"
	"strconv"
	"strings"
)

type Clause struct {
	Expr  Expr
	Src   string
	Label string // optional "name:" prefix, used in obligation names
	File  string
	Line  int
}

// AtClause: an assertion at the calls of a named callee (may mention locals).
type AtClause struct {
	Callee string
	Clause Clause
}

type LoopSpec struct {
	Invariants  []Clause
	Exits       []Clause // "exit [label:] e": proved on every edge that leaves the loop (condition false, break, return inside the loop)
	Steps       []Clause // "step [label:] e": proved at every back edge; prev(x) is x at the loop head of the same iteration
	Decreases   *Clause
	Modifies    []Clause
	HasModifies bool
	ModifiesAll bool
}

type Contract struct {
	Name        string // as written
	Full        string // fully qualified key
	PkgPath     string // package the block was written in ("" for spec files)
	Props       []string
	Requires    []Clause
	Ensures     []Clause
	Checks      []Clause // "check": proved at exit like a postcondition, but not exported to callers (may mention locals)
	AtCalls     []AtClause // "at <callee> [label:] e": proved in the state right before every call whose callee name contains <callee>
	Modifies    []Clause
	ModifiesAll bool
	HasModifies bool
	Loops       map[int]*LoopSpec
	Flags       map[string]string
	GhostSets   []GhostSet // ghost assignments performed when the function returns
	GhostInits  []GhostSet // ghost assignments performed when the function is entered (scratch ghost state)
	Replay      []string
	Extern      bool
	File        string
	Line        int
	Kind        string // "func" | "fieldfunc" | "iface"
	ParamNames  []string // optional parameter names given in the header: name(a, b)
}

// GhostSet: "ghostset v = e": the ghost variable v is assigned e (evaluated in
// the state at return, old() = state at entry) when the function returns.
// Ghost state has no run-time existence; the assignment is part of the
// specification and is applied, not proved.
type GhostSet struct {
	Var  string
	Expr Expr
	Src  string
}

type SpecFn struct {
	Name    string
	Params  []QVar
	Ret     string
	Body    Expr
	Src     string
	PkgPath string
	File    string
	Line    int
}

type Lemma struct {
	Name    string
	Props   []string
	Clause  Clause
	Axiom   bool
	PkgPath string
	Flags   map[string]string
	Vars    []QVar // universally quantified variables of a lemma ("lemma name(a T, b T)")
}

type GhostField struct {
	TypeName string // local or qualified type name
	Field    string
	GoType   string
	PkgPath  string
}

type LockInv struct {
	TypeName string
	Mutex    string
	Clause   Clause
	PkgPath  string
	Fields   []string // protected fields
}

type Specs struct {
	Contracts map[string]*Contract // by Full
	SpecFns   map[string]*SpecFn
	Lemmas    []*Lemma
	Ghosts    []*GhostField
	LockInvs  []*LockInv
	Opaque    map[string]bool // fully qualified type names treated as opaque sorts
	PureFns   []*regexp.Regexp
	FuncFns   []*regexp.Regexp // side-effect free AND deterministic: result is a function of the arguments
	TypeInvs  map[string][]Clause // per qualified struct type: invariants assumed for values of it
	GhostVars map[string]*GhostField
	Files     []string
	Sweeps    []*Sweep
}

func NewSpecs() *Specs {
	return &Specs{Contracts: map[string]*Contract{}, SpecFns: map[string]*SpecFn{}, Opaque: map[string]bool{}, TypeInvs: map[string][]Clause{}, GhostVars: map[string]*GhostField{}}
}

var propsRe = regexp.MustCompile(`\[(C[0-9]+(?:\s*,\s*C[0-9]+)*)\]`)

var clauseKeywords = map[string]bool{
	"requires": true, "ensures": true, "check": true, "at": true, "modifies": true, "loop": true, "invariant": true, "step": true, "exit": true,
	"decreases": true, "replay:": true, "flag": true, "end": true, "ghostset": true, "ghostinit": true,
}
var topKeywords = map[string]bool{
	"func": true, "extern": true, "iface": true, "spec": true, "axiom": true, "lemma": true, "ghost": true,
	"lockinv": true, "fieldfunc": true, "opaque": true, "pure": true, "typeinv": true, "functions": true, "sweep": true,
}

// qualify turns a name written inside package pkgPath into a full key.
func qualify(name, pkgPath string) string {
	if pkgPath == "" {
		return name
	}
	if strings.HasPrefix(name, "functype:") {
		return "functype:" + qualifyType(strings.TrimPrefix(name, "functype:"), pkgPath)
	}
	// already qualified: the receiver type / function name carries a package path
	head := name
	if i := strings.Index(name, ")"); strings.HasPrefix(name, "(") && i > 0 {
		head = name[:i]
	}
	if strings.Contains(head, "/") {
		return name
	}
	if strings.HasPrefix(name, "(*") {
		return "(*" + pkgPath + "." + name[2:]
	}
	if strings.HasPrefix(name, "(") {
		return "(" + pkgPath + "." + name[1:]
	}
	return pkgPath + "." + name
}

// ParseFile reads one contract/spec file. pkgPath is "" for spec files.
func (sp *Specs) ParseFile(path, pkgPath string) error {
	f, err := os.Open(path)
	if err != nil {
		return err
	}
	defer f.Close()
	sp.Files = append(sp.Files, path)
	sc := bufio.NewScanner(f)
	sc.Buffer(make([]byte, 1<<20), 1<<20)
	type rawLine struct {
		text string
		line int
	}
	var lines []rawLine
	ln := 0
	for sc.Scan() {
		ln++
		t := sc.Text()
		tt := strings.TrimSpace(t)
		if !strings.HasPrefix(tt, "//@") {
			continue
		}
		body := strings.TrimPrefix(tt, "//@")
		if strings.HasPrefix(strings.TrimSpace(body), "#") { // comment inside contracts
			continue
		}
		lines = append(lines, rawLine{body, ln})
	}
	// group: a logical line starts with a keyword; others are continuations.
	type logical struct {
		kw, rest string
		line     int
	}
	var logs []logical
	inReplay := false
	for _, l := range lines {
		fields := strings.Fields(l.text)
		if len(fields) == 0 {
			continue
		}
		kw := fields[0]
		if inReplay {
			if kw == "end" {
				inReplay = false
				logs = append(logs, logical{"end", "", l.line})
				continue
			}
			logs = append(logs, logical{"replayline", strings.TrimPrefix(l.text, " "), l.line})
			continue
		}
		if topKeywords[kw] || clauseKeywords[kw] {
			rest := strings.TrimSpace(strings.TrimPrefix(strings.TrimSpace(l.text), kw))
			logs = append(logs, logical{kw, rest, l.line})
			if kw == "replay:" {
				inReplay = true
			}
			continue
		}
		if len(logs) == 0 {
			return fmt.Errorf("%s:%d: continuation line without a clause", path, l.line)
		}
		logs[len(logs)-1].rest += " " + strings.TrimSpace(l.text)
	}

	var cur *Contract
	var curLoop *LoopSpec
	mkClause := func(src string, line int) (Clause, error) {
		label := ""
		if m := regexp.MustCompile(`^([A-Za-z_][A-Za-z0-9_\-/]*):\s`).FindStringSubmatch(src); m != nil {
			label = m[1]
			src = strings.TrimSpace(src[len(m[0]):])
		}
		e, err := ParseExpr(src)
		if err != nil {
			return Clause{}, fmt.Errorf("%s:%d: %v", path, line, err)
		}
		return Clause{Expr: e, Src: src, Label: label, File: path, Line: line}, nil
	}
	parseModifies := func(rest string, line int) ([]Clause, bool, error) {
		var out []Clause
		for _, part := range splitTop(rest, ',') {
			part = strings.TrimSpace(part)
			if part == "" || part == "nothing" {
				continue
			}
			if part == "everything" {
				return nil, true, nil
			}
			if part == "allocated" {
				out = append(out, Clause{Expr: &EIdent{"allocated"}, Src: "allocated", File: path, Line: line})
				continue
			}
			c, err := mkClause(part, line)
			if err != nil {
				return nil, false, err
			}
			out = append(out, c)
		}
		return out, false, nil
	}
	for _, l := range logs {
		switch l.kw {
		case "func", "extern", "fieldfunc", "iface":
			rest := l.rest
			if l.kw == "extern" {
				rest = strings.TrimSpace(strings.TrimPrefix(rest, "func"))
			}
			var props []string
			if m := propsRe.FindStringSubmatch(rest); m != nil {
				for _, p := range strings.Split(m[1], ",") {
					props = append(props, strings.TrimSpace(p))
				}
				rest = strings.TrimSpace(strings.Replace(rest, m[0], "", 1))
			}
			var pnames []string
			if i := strings.LastIndex(rest, "("); i > 0 && strings.HasSuffix(rest, ")") && !strings.HasPrefix(rest[i:], "(*") && i > strings.LastIndex(rest, ").") {
				for _, n := range strings.Split(rest[i+1:len(rest)-1], ",") {
					if n = strings.TrimSpace(n); n != "" {
						pnames = append(pnames, n)
					}
				}
				rest = strings.TrimSpace(rest[:i])
			}
			cur = &Contract{Name: rest, Full: qualify(rest, pkgPath), PkgPath: pkgPath, Props: props, ParamNames: pnames,
				Loops: map[int]*LoopSpec{}, Flags: map[string]string{}, File: path, Line: l.line,
				Extern: l.kw == "extern" || pkgPath == "", Kind: "func"}
			if l.kw == "fieldfunc" {
				cur.Kind = "fieldfunc"
				cur.Full = "fieldfunc:" + qualify(rest, pkgPath)
			}
			if l.kw == "iface" {
				cur.Kind = "iface"
			}
			if old, dup := sp.Contracts[cur.Full]; dup {
				return fmt.Errorf("%s:%d: duplicate contract for %s (also %s:%d)", path, l.line, cur.Full, old.File, old.Line)
			}
			sp.Contracts[cur.Full] = cur
			curLoop = nil
		case "at":
			if cur == nil {
				return fmt.Errorf("%s:%d: at outside a func block", path, l.line)
			}
			callee, rest, ok := strings.Cut(strings.TrimSpace(l.rest), " ")
			if !ok {
				return fmt.Errorf("%s:%d: at <callee> [label:] expr", path, l.line)
			}
			c, err := mkClause(rest, l.line)
			if err != nil {
				return err
			}
			cur.AtCalls = append(cur.AtCalls, AtClause{Callee: callee, Clause: c})
			curLoop = nil
		case "requires", "ensures", "invariant", "decreases", "check", "step", "exit":
			if cur == nil {
				return fmt.Errorf("%s:%d: %s outside a func block", path, l.line, l.kw)
			}
			c, err := mkClause(l.rest, l.line)
			if err != nil {
				return err
			}
			switch l.kw {
			case "requires":
				cur.Requires = append(cur.Requires, c)
				curLoop = nil
			case "ensures":
				cur.Ensures = append(cur.Ensures, c)
				curLoop = nil
			case "check":
				cur.Checks = append(cur.Checks, c)
				curLoop = nil
			case "invariant":
				if curLoop == nil {
					return fmt.Errorf("%s:%d: invariant outside a loop block", path, l.line)
				}
				curLoop.Invariants = append(curLoop.Invariants, c)
			case "step":
				if curLoop == nil {
					return fmt.Errorf("%s:%d: step outside a loop block", path, l.line)
				}
				curLoop.Steps = append(curLoop.Steps, c)
			case "exit":
				if curLoop == nil {
					return fmt.Errorf("%s:%d: exit outside a loop block", path, l.line)
				}
				curLoop.Exits = append(curLoop.Exits, c)
			case "decreases":
				if curLoop == nil {
					return fmt.Errorf("%s:%d: decreases outside a loop block", path, l.line)
				}
				cc := c
				curLoop.Decreases = &cc
			}
		case "modifies":
			if cur == nil {
				return fmt.Errorf("%s:%d: modifies outside a func block", path, l.line)
			}
			cl, all, err := parseModifies(l.rest, l.line)
			if err != nil {
				return err
			}
			if curLoop != nil {
				if all {
					// "modifies everything" on a loop: no frame, everything is havocked at the head
					curLoop.ModifiesAll = true
				} else {
					curLoop.Modifies = append(curLoop.Modifies, cl...)
					curLoop.HasModifies = true
				}
			} else {
				cur.Modifies = append(cur.Modifies, cl...)
				cur.HasModifies = true
				if all {
					cur.ModifiesAll = true
				}
			}
		case "ghostinit":
			// "ghostinit v = e": ghost code at function entry assigns the scratch ghost
			// variable v; callers see v havocked and need not list it in their frame
			if cur == nil {
				return fmt.Errorf("%s:%d: ghostinit outside a func block", path, l.line)
			}
			name, rhs, ok := strings.Cut(l.rest, "=")
			if !ok {
				return fmt.Errorf("%s:%d: ghostinit v = expr", path, l.line)
			}
			e, err := ParseExpr(strings.TrimSpace(rhs))
			if err != nil {
				return fmt.Errorf("%s:%d: %v", path, l.line, err)
			}
			cur.GhostInits = append(cur.GhostInits, GhostSet{Var: strings.TrimSpace(name), Expr: e, Src: l.rest})
			curLoop = nil
		case "ghostset":
			if cur == nil {
				return fmt.Errorf("%s:%d: ghostset outside a func block", path, l.line)
			}
			name, rhs, ok := strings.Cut(l.rest, "=")
			if !ok {
				return fmt.Errorf("%s:%d: ghostset v = expr", path, l.line)
			}
			e, err := ParseExpr(strings.TrimSpace(rhs))
			if err != nil {
				return fmt.Errorf("%s:%d: %v", path, l.line, err)
			}
			cur.GhostSets = append(cur.GhostSets, GhostSet{Var: strings.TrimSpace(name), Expr: e, Src: l.rest})
			curLoop = nil
		case "loop":
			if cur == nil {
				return fmt.Errorf("%s:%d: loop outside a func block", path, l.line)
			}
			k, err := strconv.Atoi(strings.TrimSuffix(strings.TrimSpace(l.rest), ":"))
			if err != nil {
				return fmt.Errorf("%s:%d: loop ordinal expected", path, l.line)
			}
			curLoop = &LoopSpec{}
			cur.Loops[k] = curLoop
		case "flag":
			if cur == nil {
				return fmt.Errorf("%s:%d: flag outside a func block", path, l.line)
			}
			for _, f := range strings.Fields(l.rest) {
				k, v, _ := strings.Cut(f, "=")
				if v == "" {
					v = "1"
				}
				cur.Flags[k] = v
			}
		case "replay:":
			curLoop = nil
		case "replayline":
			if cur != nil {
				cur.Replay = append(cur.Replay, l.rest)
			}
		case "end":
		case "spec":
			// spec fn name(a T, b U) R = expr
			rest := strings.TrimSpace(strings.TrimPrefix(l.rest, "fn"))
			sf, err := parseSpecFn(rest)
			if err != nil {
				return fmt.Errorf("%s:%d: %v", path, l.line, err)
			}
			sf.PkgPath, sf.File, sf.Line = pkgPath, path, l.line
			if _, dup := sp.SpecFns[sf.Name]; dup {
				return fmt.Errorf("%s:%d: duplicate spec fn %s", path, l.line, sf.Name)
			}
			sp.SpecFns[sf.Name] = sf
			cur, curLoop = nil, nil
		case "axiom", "lemma":
			rest := l.rest
			lm := &Lemma{Axiom: l.kw == "axiom", PkgPath: pkgPath, Flags: map[string]string{}}
			if m := propsRe.FindStringSubmatch(rest); m != nil && strings.Index(rest, m[0]) < strings.Index(rest, ":") {
				for _, p := range strings.Split(m[1], ",") {
					lm.Props = append(lm.Props, strings.TrimSpace(p))
				}
				rest = strings.Replace(rest, m[0], "", 1)
			}
			head, body, ok := strings.Cut(rest, ":")
			if !ok {
				return fmt.Errorf("%s:%d: %s needs 'name: expr'", path, l.line, l.kw)
			}
			head = strings.TrimSpace(head)
			for _, w := range strings.Fields(head)[1:] {
				if k, v, ok := strings.Cut(w, "="); ok {
					lm.Flags[k] = v
				} else {
					lm.Flags[w] = "1"
				}
			}
			lm.Name = strings.Fields(head)[0]
			if i := strings.Index(lm.Name, "("); i >= 0 {
				return fmt.Errorf("%s:%d: lemma parameters are written as 'forall' in the body", path, l.line)
			}
			c, err := mkClause(strings.TrimSpace(body), l.line)
			if err != nil {
				return err
			}
			lm.Clause = c
			sp.Lemmas = append(sp.Lemmas, lm)
			cur, curLoop = nil, nil
		case "ghost":
			// ghost field T.name type   |   ghost var name type
			fs := strings.Fields(l.rest)
			if len(fs) == 3 && fs[0] == "var" {
				sp.GhostVars[fs[1]] = &GhostField{Field: fs[1], GoType: fs[2], PkgPath: pkgPath}
				cur, curLoop = nil, nil
				continue
			}
			if len(fs) != 3 || fs[0] != "field" {
				return fmt.Errorf("%s:%d: ghost field T.name type", path, l.line)
			}
			i := strings.LastIndex(fs[1], ".")
			if i < 0 {
				return fmt.Errorf("%s:%d: ghost field T.name type", path, l.line)
			}
			sp.Ghosts = append(sp.Ghosts, &GhostField{TypeName: qualifyType(fs[1][:i], pkgPath), Field: fs[1][i+1:], GoType: fs[2], PkgPath: pkgPath})
			cur, curLoop = nil, nil
		case "typeinv":
			// typeinv T: expr over self
			head, body, ok := strings.Cut(l.rest, ":")
			if !ok {
				return fmt.Errorf("%s:%d: typeinv T: expr", path, l.line)
			}
			c, err := mkClause(strings.TrimSpace(body), l.line)
			if err != nil {
				return err
			}
			tn := qualifyType(strings.TrimSpace(head), pkgPath)
			sp.TypeInvs[tn] = append(sp.TypeInvs[tn], c)
			cur, curLoop = nil, nil
		case "lockinv":
			// lockinv T.mtx protects a,b,c: expr over self
			head, body, ok := strings.Cut(l.rest, ":")
			if !ok {
				return fmt.Errorf("%s:%d: lockinv T.mtx [protects f,g]: expr", path, l.line)
			}
			hs := strings.Fields(head)
			i := strings.LastIndex(hs[0], ".")
			if i < 0 {
				return fmt.Errorf("%s:%d: lockinv T.mtx", path, l.line)
			}
			li := &LockInv{TypeName: qualifyType(hs[0][:i], pkgPath), Mutex: hs[0][i+1:], PkgPath: pkgPath}
			if len(hs) >= 3 && hs[1] == "protects" {
				for _, f := range strings.Split(strings.Join(hs[2:], ""), ",") {
					li.Fields = append(li.Fields, strings.TrimSpace(f))
				}
			}
			c, err := mkClause(strings.TrimSpace(body), l.line)
			if err != nil {
				return err
			}
			li.Clause = c
			sp.LockInvs = append(sp.LockInvs, li)
			cur, curLoop = nil, nil
		case "opaque":
			for _, t := range strings.Fields(l.rest) {
				sp.Opaque[qualifyType(t, pkgPath)] = true
			}
			cur, curLoop = nil, nil
		case "sweep":
			// sweep <kind> [Cxx] <package path>...
			sw := &Sweep{File: path, Line: l.line}
			if m := propsRe.FindStringSubmatch(l.rest); m != nil {
				for _, pr := range strings.Split(m[1], ",") {
					sw.Props = append(sw.Props, strings.TrimSpace(pr))
				}
			}
			for k, t := range strings.Fields(propsRe.ReplaceAllString(l.rest, " ")) {
				if k == 0 {
					sw.Kind = t
				} else {
					sw.Pkgs = append(sw.Pkgs, t)
				}
			}
			sw.PkgPath = pkgPath
			if sw.Kind == "" || len(sw.Pkgs) == 0 || len(sw.Props) == 0 {
				return fmt.Errorf("%s:%d: sweep <kind> [Cxx] <package path>...", path, l.line)
			}
			sp.Sweeps = append(sp.Sweeps, sw)
			cur, curLoop = nil, nil
		case "pure", "functions":
			for _, t := range strings.Fields(l.rest) {
				re, err := regexp.Compile("^" + t + "$")
				if err != nil {
					return fmt.Errorf("%s:%d: %v", path, l.line, err)
				}
				if l.kw == "pure" {
					sp.PureFns = append(sp.PureFns, re)
				} else {
					sp.FuncFns = append(sp.FuncFns, re)
				}
			}
			cur, curLoop = nil, nil
		}
	}
	return nil
}

func qualifyType(name, pkgPath string) string {
	if strings.Contains(name, ".") || pkgPath == "" {
		return name
	}
	return pkgPath + "." + name
}

func parseSpecFn(s string) (*SpecFn, error) {
	i := strings.Index(s, "(")
	if i < 0 {
		return nil, fmt.Errorf("spec fn: '(' expected")
	}
	sf := &SpecFn{Name: strings.TrimSpace(s[:i])}
	depth, j := 0, i
	for ; j < len(s); j++ {
		if s[j] == '(' {
			depth++
		} else if s[j] == ')' {
			depth--
			if depth == 0 {
				break
			}
		}
	}
	if j >= len(s) {
		return nil, fmt.Errorf("spec fn: unbalanced parameters")
	}
	params := s[i+1 : j]
	var pending []string
	for _, p := range splitTop(params, ',') {
		fs := strings.Fields(p)
		switch len(fs) {
		case 0:
		case 1:
			pending = append(pending, fs[0])
		default:
			ty := strings.Join(fs[1:], "")
			for _, n := range pending {
				sf.Params = append(sf.Params, QVar{n, ty})
			}
			pending = nil
			sf.Params = append(sf.Params, QVar{fs[0], ty})
		}
	}
	if len(pending) > 0 {
		return nil, fmt.Errorf("spec fn: parameter without type")
	}
	rest := strings.TrimSpace(s[j+1:])
	ret, body, hasBody := strings.Cut(rest, "=")
	// careful: "==" can't appear in the type, so the first '=' separates
	sf.Ret = strings.TrimSpace(ret)
	if hasBody {
		e, err := ParseExpr(strings.TrimSpace(body))
		if err != nil {
			return nil, err
		}
		sf.Body = e
		sf.Src = strings.TrimSpace(body)
	}
	if sf.Ret == "" {
		return nil, fmt.Errorf("spec fn %s: result type expected", sf.Name)
	}
	return sf, nil
}

func splitTop(s string, sep byte) []string {
	var out []string
	depth, start := 0, 0
	inStr := false
	for i := 0; i < len(s); i++ {
		c := s[i]
		if inStr {
			if c == '\\' {
				i++
			} else if c == '"' {
				inStr = false
			}
			continue
		}
		switch c {
		case '"':
			inStr = true
		case '(', '[', '{':
			depth++
		case ')', ']', '}':
			depth--
		default:
			if c == sep && depth == 0 {
				out = append(out, s[start:i])
				start = i + 1
			}
		}
	}
	out = append(out, s[start:])
	return out
}

// LoadSpecDir parses every *.spec file of a directory (extern contracts).
func (sp *Specs) LoadSpecDir(dir string) error {
	files, _ := filepath.Glob(filepath.Join(dir, "*.spec"))
	for _, f := range files {
		if err := sp.ParseFile(f, ""); err != nil {
			return err
		}
	}
	return nil
}
