package main

// Evaluation of contract expressions in a symbolic state.

import (
	"strconv"
	"fmt"
	"go/token"
	"go/types"
	"math/big"
	"strings"

	"golang.org/x/tools/go/ssa"
)

type envVar struct {
	v Val
	t types.Type
}

type Env struct {
	u           *Unit
	st, old     *State
	vars        map[string]envVar
	pkgPath     string
	fr          *Frame // for resolving local variable names (invariants)
	results     []Val
	resultTypes []types.Type
	bound       map[string]envVar
	depth       int
	loop          *loopInfo // loop whose invariant is being evaluated
	inOld         bool
	prevSt        *State // step clauses: the state prev(e) is evaluated in
	wantAddr      bool // lookupLocal returns the address of a heap local instead of its value
	scopeTolerant bool // a name that is not in scope raises notInScope (caught by atCallChecks) instead of unsupported
	live          *Env // the environment outside old()
	paramsAtEntry bool                 // in ensures: parameter names denote entry values, other locals their final values
	fvOverride  map[string]freeVarInfo // free variables of a callee closure, bound at a call / go site
	facts       *[]*Term // type facts of every heap value read while evaluating (always true of a well-typed heap)
}

func (e *Env) addFact(v *Term, t types.Type) {
	if e.facts == nil || t == nil {
		return
	}
	f := e.u.typeFacts(v, t)
	if f.S != "true" {
		*e.facts = append(*e.facts, f)
	}
	// everything read from memory was allocated before "now" of the state it is read in
	switch v.Sort {
	case SPtr:
		*e.facts = append(*e.facts, Lt(App(SInt, "birth", parr(v)), e.st.now))
	case SSlice:
		*e.facts = append(*e.facts, Lt(App(SInt, "birth", sarr(v)), e.st.now))
	case SRef:
		*e.facts = append(*e.facts, Lt(App(SInt, "birth", v), e.st.now))
	}
}

// evalBoolF evaluates a boolean contract expression; the type facts of the
// values it reads are assumed into st (they hold in every well-typed heap).
func (u *Unit) evalBoolF(env *Env, st *State, x Expr) *Term {
	var facts []*Term
	sub := *env
	sub.facts = &facts
	t := u.evalBool(&sub, x)
	u.assume(st, And(facts...))
	return t
}

// ghostPtr: the location of every ghost global variable (one map per variable).
var ghostPtr = &Term{"(mkptr nilref 0)", SPtr}

type tv struct {
	v Val
	t types.Type // may be nil for pure spec values
}

func (e *Env) with(st *State) *Env {
	n := *e
	n.st = st
	return &n
}

// envFor: environment of the unit's own contract, evaluated in st.
func (u *Unit) envFor(fr *Frame, st, old *State, results []Val) *Env {
	env := &Env{u: u, st: st, old: old, vars: map[string]envVar{}, fr: fr, results: results}
	if u.contract != nil {
		env.pkgPath = u.contract.PkgPath
	}
	if fr != nil && fr.contract != nil {
		env.pkgPath = fr.contract.PkgPath
	}
	if env.pkgPath == "" && fr != nil && fr.fn.Pkg != nil {
		env.pkgPath = fr.fn.Pkg.Pkg.Path()
	}
	for n, v := range u.entryVals {
		env.vars[n] = envVar{v, u.paramTypes[n]}
	}
	if results != nil {
		rs := u.fn.Signature.Results()
		for i := 0; i < rs.Len(); i++ {
			env.resultTypes = append(env.resultTypes, rs.At(i).Type())
			if n := rs.At(i).Name(); n != "" && n != "_" {
				env.vars[n] = envVar{results[i], rs.At(i).Type()}
			}
		}
	}
	return env
}

// notInScope: a contract expression names a local variable that does not exist
// (yet) at the point where it is evaluated.
type notInScope struct{ msg string }

func (e *Env) outOfScope(msg string) {
	if e.scopeTolerant {
		panic(notInScope{"contract expression: " + msg})
	}
	panic(unsupported{"contract expression: " + msg})
}

func (e *Env) fail(f string, a ...any) {
	panic(unsupported{"contract expression: " + fmt.Sprintf(f, a...)})
}

func (u *Unit) evalBool(env *Env, x Expr) *Term {
	r := env.eval(x)
	t, ok := r.v.(*Term)
	if !ok || t.Sort != SBool {
		env.fail("boolean expected: %s", exprString(x))
	}
	return t
}

func (u *Unit) evalTerm(env *Env, x Expr) *Term {
	r := env.eval(x)
	t, ok := r.v.(*Term)
	if !ok {
		env.fail("scalar expected: %s", exprString(x))
	}
	return t
}

// lookupLocal finds the current value of a local variable / parameter cell by name.
func (e *Env) lookupLocal(name string) (tv, bool) {
	fr := e.fr
	if fr == nil {
		return tv{}, false
	}
	if e.inOld && e.live != nil {
		// a local variable inside old(): its current value (locals are not part of the heap)
		sub := *e.live
		sub.paramsAtEntry = true
		return sub.lookupLocal(name)
	}
	if name == "rangeindex" && e.loop != nil {
		// the hidden index of the range loop whose invariant is being evaluated
		for _, in := range e.loop.header.Instrs {
			if ld, ok := in.(*ssa.UnOp); ok {
				if a, ok := ld.X.(*ssa.Alloc); ok && a.Comment == "rangeindex" {
					if v, ok := e.st.cells[a]; ok {
						return tv{v, types.Typ[types.Int]}, true
					}
				}
			}
		}
	}
	if e.paramsAtEntry {
		for _, p := range fr.fn.Params {
			if p.Name() == name {
				return tv{}, false
			}
		}
	}
	var cands []*ssa.Alloc
	for _, a := range fr.fn.Locals {
		if a.Comment == name {
			cands = append(cands, a)
		}
	}
	// heap-escaping locals are Allocs inside blocks
	for _, b := range fr.fn.Blocks {
		for _, in := range b.Instrs {
			if a, ok := in.(*ssa.Alloc); ok && a.Heap && a.Comment == name {
				cands = append(cands, a)
			}
		}
	}
	if len(cands) == 0 {
		return tv{}, false
	}
	pick := cands[0]
	if len(cands) > 1 {
		// prefer the candidate that currently has a value; among those the latest declared
		var best *ssa.Alloc
		for _, c := range cands {
			_, has := e.st.cells[c]
			if _, isReg := fr.regs[c]; isReg {
				has = true
			}
			if has && (best == nil || c.Pos() > best.Pos()) {
				best = c
			}
		}
		if best != nil {
			pick = best
		}
	}
	elem := ptrElem(pick.Type())
	if isCellAlloc(pick) {
		v, ok := e.st.cells[pick]
		if !ok {
			return tv{}, false
		}
		return tv{v, elem}, true
	}
	p, ok := fr.regs[pick]
	if !ok {
		return tv{}, false
	}
	if e.wantAddr {
		return tv{p, types.NewPointer(elem)}, true
	}
	return tv{e.u.loadVal(e.st, elem, p.(*Term)), elem}, true
}

// localArrayAddr: the address of a local array variable that lives on the heap.
func (e *Env) localArrayAddr(name string) (*Term, *types.Array, bool) {
	sub := *e
	sub.wantAddr = true
	r, ok := sub.lookupLocalQuiet(name)
	if !ok {
		return nil, nil, false
	}
	p, isT := r.v.(*Term)
	if !isT || p.Sort != SPtr || r.t == nil {
		return nil, nil, false
	}
	pe := ptrElem(r.t)
	if pe == nil {
		return nil, nil, false
	}
	at, isArr := types.Unalias(pe).Underlying().(*types.Array)
	if !isArr {
		return nil, nil, false
	}
	return p, at, true
}

func (e *Env) eval(x Expr) tv {
	u := e.u
	switch x := x.(type) {
	case *EInt:
		return tv{BigLit(x.Val), types.Typ[types.UntypedInt]}
	case *EFloat:
		return tv{RealLit(x.Val), types.Typ[types.UntypedFloat]}
	case *EStr:
		if u.smtStrings {
			return tv{smtStringLit(x.Val), types.Typ[types.String]}
		}
		return tv{u.ctx.StrLit(x.Val), types.Typ[types.String]}
	case *EIdent:
		return e.ident(x.Name)
	case *EUn:
		switch x.Op {
		case "!":
			return tv{Not(u.evalBool(e, x.X)), types.Typ[types.Bool]}
		case "-":
			r := e.eval(x.X)
			t := r.v.(*Term)
			if t.Sort.IsBV() {
				return tv{mk(t.Sort, "bvneg", t), r.t}
			}
			return tv{Neg(t), r.t}
		case "^":
			r := e.eval(x.X)
			t := r.v.(*Term)
			if t.Sort.IsBV() {
				return tv{mk(t.Sort, "bvnot", t), r.t}
			}
			e.fail("^ on mathematical integer")
		case "&":
			// &x: the address of a local variable that lives on the heap
			if id, isId := x.X.(*EIdent); isId && e.fr != nil {
				sub := *e
				sub.wantAddr = true
				if r, ok := sub.lookupLocalQuiet(id.Name); ok {
					if p, isT := r.v.(*Term); isT && p.Sort == SPtr {
						return r
					}
				}
			}
			if id, isId := x.X.(*EIdent); isId && e.fr != nil {
				// a local whose address is never taken by the code: no pointer the code
				// holds can be equal to its address
				if r, ok := e.lookupLocalQuiet(id.Name); ok && r.t != nil {
					ref := u.newRef(e.st, "addr_of_"+id.Name)
					return tv{mkptr(ref, IntLit(0)), types.NewPointer(r.t)}
				}
			}
			e.outOfScope("&" + exprString(x.X) + ": not a heap-allocated local variable in scope")
		case "*":
			r := e.eval(x.X)
			p, ok := r.v.(*Term)
			if !ok || p.Sort != SPtr {
				if a, isA := r.v.(*AddrVal); isA {
					return tv{u.load(e.st, a, a.Typ, token.NoPos), a.Typ}
				}
				e.fail("dereference of non-pointer %s", exprString(x.X))
			}
			el := ptrElem(r.t)
			if el == nil {
				e.fail("dereference of %s", r.t)
			}
			return tv{u.loadVal(e.st, el, p), el}
		}
	case *EBin:
		return e.binary(x)
	case *ECond:
		c := u.evalBool(e, x.C)
		a, b := e.eval(x.A), e.eval(x.B)
		at, bt := e.unify(a, b)
		return tv{Ite(c, at, bt), pickType(a.t, b.t)}
	case *ESel:
		return e.selector(x)
	case *EIdx:
		return e.index(x)
	case *ESliceE:
		if id, isID := x.X.(*EIdent); isID {
			if p, at, ok := e.localArrayAddr(id.Name); ok {
				// a[lo:hi] of a local array
				lo, hi := IntLit(0), IntLit(at.Len())
				if x.Lo != nil {
					lo = u.evalTerm(e, x.Lo)
				}
				if x.Hi != nil {
					hi = u.evalTerm(e, x.Hi)
				}
				return tv{mkslice(parr(p), Add(pidx(p), lo), Sub(hi, lo), Sub(IntLit(at.Len()), lo)), types.NewSlice(at.Elem())}
			}
		}
		base := e.eval(x.X)
		s, isTerm := base.v.(*Term)
		if !isTerm {
			e.fail("slice expression on %s", exprString(x.X))
		}
		lo := IntLit(0)
		if x.Lo != nil {
			lo = u.evalTerm(e, x.Lo)
		}
		if s.Sort == SSlice {
			hi := slen(s)
			if x.Hi != nil {
				hi = u.evalTerm(e, x.Hi)
			}
			return tv{mkslice(sarr(s), Add(soff(s), lo), Sub(hi, lo), Sub(scap(s), lo)), base.t}
		}
		if s.Sort == SStr || s.Sort == SString {
			// s[lo:hi] of a string: the same substr term the code's slicing produces
			var hi *Term
			if x.Hi != nil {
				hi = u.evalTerm(e, x.Hi)
			} else {
				hi = u.strLen(s)
			}
			if s.Sort == SString {
				return tv{mk(SString, "str.substr", s, lo, Sub(hi, lo)), base.t}
			}
			f := u.ctx.Func("substr", []Sort{SStr, SInt, SInt}, SStr)
			return tv{App(SStr, f, s, lo, hi), base.t}
		}
		e.fail("slice expression on %s", s.Sort)
	case *ECall:
		return e.callExpr(x)
	case *EQuant:
		return e.quant(x)
	}
	e.fail("cannot evaluate %s", exprString(x))
	return tv{}
}

func pickType(a, b types.Type) types.Type {
	if a == nil {
		return b
	}
	if bb, ok := a.(*types.Basic); ok && bb.Info()&types.IsUntyped != 0 && b != nil {
		return b
	}
	return a
}

func (e *Env) ident(name string) tv {
	u := e.u
	if b, ok := e.bound[name]; ok {
		return tv{b.v, b.t}
	}
	switch name {
	case "true":
		return tv{True, types.Typ[types.Bool]}
	case "false":
		return tv{False, types.Typ[types.Bool]}
	case "nil":
		return tv{NilPtr, types.Typ[types.UntypedNil]}
	case "result":
		if len(e.results) >= 1 {
			return tv{e.results[0], e.resultType(0)}
		}
		e.fail("result used where no result is in scope")
	case "now":
		return tv{e.st.now, types.Typ[types.Int]}
	}
	if strings.HasPrefix(name, "result") {
		var k int
		if _, err := fmt.Sscanf(name, "result%d", &k); err == nil && k < len(e.results) {
			return tv{e.results[k], e.resultType(k)}
		}
	}
	// locals first (current values), then parameters / bound names
	if e.fr != nil {
		if r, ok := e.lookupLocal(name); ok {
			return r
		}
	}
	if v, ok := e.vars[name]; ok {
		return tv{v.v, v.t}
	}
	if alias := u.renamedTo(e, name); alias != "" && alias != name {
		return e.ident(alias)
	}
	if p, t, ok := e.freeVar(name); ok {
		return tv{u.loadCell(e, t, p), t}
	}
	// package-level constant / variable
	if obj := u.lookupPkgObj(e.pkgPath, name); obj != nil {
		switch o := obj.(type) {
		case *types.Const:
			return tv{u.constVal(ssa.NewConst(o.Val(), o.Type())), o.Type()}
		case *types.Var:
			if sp := u.prog.ssaPkgs[o.Pkg().Path()]; sp != nil {
				if g, ok := sp.Members[name].(*ssa.Global); ok {
					p := u.val(nil, e.st, g).(*Term)
					return tv{u.loadVal(e.st, o.Type(), p), o.Type()}
				}
			}
		}
	}
	if g, ok := u.prog.specs.GhostVars[name]; ok {
		gt, gs := u.resolveType(g.GoType, g.PkgPath)
		return tv{u.loadLoc(e.st, "G!"+name, gs, ghostPtr), gt}
	}
	// nullary spec function
	if sf, ok := u.prog.specs.SpecFns[name]; ok && len(sf.Params) == 0 {
		return e.specCall(sf, nil)
	}
	e.outOfScope("unknown name " + strconv.Quote(name))
	return tv{}
}

// freeVar: a variable captured by the closure being verified / inlined; its
// value lives in a heap cell shared with the enclosing function.
func (e *Env) freeVar(name string) (*Term, types.Type, bool) {
	if e.fvOverride != nil {
		if fi, ok := e.fvOverride[name]; ok {
			return fi.p, fi.t, true
		}
		return nil, nil, false
	}
	for fr := e.fr; fr != nil; fr = nil {
		for i, fv := range fr.fn.FreeVars {
			if fv.Name() == name && i < len(fr.freeVars) {
				if p, ok := fr.freeVars[i].(*Term); ok {
					return p, ptrElem(fv.Type()), true
				}
			}
		}
	}
	if fi, ok := e.u.freeVarPtrs[name]; ok {
		return fi.p, fi.t, true
	}
	return nil, nil, false
}

func (u *Unit) loadCell(e *Env, t types.Type, p *Term) Val {
	if _, isS := u.structOf(t); isS {
		return u.loadVal(e.st, t, p)
	}
	sort, _ := u.sortOf(t)
	v := u.loadLoc(e.st, elemMapName(sort), sort, p)
	e.addFact(v, t)
	return v
}

func (e *Env) resultType(k int) types.Type {
	if k < len(e.resultTypes) {
		return e.resultTypes[k]
	}
	return nil
}

func (u *Unit) lookupPkgObj(pkgPath, name string) types.Object {
	if p := u.prog.typesPkgs[pkgPath]; p != nil {
		return p.Scope().Lookup(name)
	}
	return nil
}

func (e *Env) unify(a, b tv) (*Term, *Term) {
	at, ok1 := a.v.(*Term)
	bt, ok2 := b.v.(*Term)
	if !ok1 || !ok2 {
		e.fail("scalar operands expected")
	}
	// nil adapts to the other side's sort
	if a.t == types.Typ[types.UntypedNil] && at.S == NilPtr.S {
		at = e.u.zeroOfSort(bt.Sort)
	}
	if b.t == types.Typ[types.UntypedNil] && bt.S == NilPtr.S {
		bt = e.u.zeroOfSort(at.Sort)
	}
	if at.Sort.IsBV() && bt.Sort == SInt {
		bt = e.intLitToBV(bt, at.Sort)
	}
	if bt.Sort.IsBV() && at.Sort == SInt {
		at = e.intLitToBV(at, bt.Sort)
	}
	return at, bt
}

func (e *Env) intLitToBV(t *Term, s Sort) *Term {
	if n, ok := new(big.Int).SetString(t.S, 10); ok {
		return BVLit(n, s.BVWidth())
	}
	return e.u.intToBV(t, s)
}

func (e *Env) binary(x *EBin) tv {
	u := e.u
	boolT := types.Typ[types.Bool]
	switch x.Op {
	case "&&":
		return tv{And(u.evalBool(e, x.L), u.evalBool(e, x.R)), boolT}
	case "||":
		return tv{Or(u.evalBool(e, x.L), u.evalBool(e, x.R)), boolT}
	case "==>":
		return tv{Implies(u.evalBool(e, x.L), u.evalBool(e, x.R)), boolT}
	case "<==>":
		return tv{Eq(u.evalBool(e, x.L), u.evalBool(e, x.R)), boolT}
	}
	l, r := e.eval(x.L), e.eval(x.R)
	if x.Op == "==" || x.Op == "!=" {
		// the address of a struct field compared with nil: nil exactly when the struct pointer is
		av, isA := l.v.(*AddrVal)
		other := r
		if !isA {
			av, isA = r.v.(*AddrVal)
			other = l
		}
		if isA {
			if ot, ok := other.v.(*Term); ok && other.t == types.Typ[types.UntypedNil] && ot.S == NilPtr.S {
				isNil := Eq(parr(av.Ptr), NilRef)
				if x.Op == "!=" {
					isNil = Not(isNil)
				}
				return tv{isNil, boolT}
			}
		}
	}
	if x.Op == "==" || x.Op == "!=" {
		var eq *Term
		_, ls := l.v.(*StructVal)
		_, rs := r.v.(*StructVal)
		if ls || rs {
			eq = u.valEq(l.v, r.v)
		} else {
			a, b := e.unify(l, r)
			if (a.Sort == SSlice && (b.S == NilSlice.S || a.S == NilSlice.S)) || (a.Sort == SPtr && b.Sort == SPtr && (a.S == NilPtr.S || b.S == NilPtr.S)) {
				eq = u.valEq(a, b)
			} else {
				eq = Eq(a, b)
			}
		}
		if x.Op == "!=" {
			eq = Not(eq)
		}
		return tv{eq, boolT}
	}
	a, b := e.unify(l, r)
	rt := pickType(l.t, r.t)
	if a.Sort.IsBV() {
		op := map[string]token.Token{"+": token.ADD, "-": token.SUB, "*": token.MUL, "/": token.QUO, "%": token.REM,
			"&": token.AND, "|": token.OR, "^": token.XOR, "<<": token.SHL, ">>": token.SHR, "&^": token.AND_NOT,
			"<": token.LSS, "<=": token.LEQ, ">": token.GTR, ">=": token.GEQ}[x.Op]
		res := u.bvBinop(op, a, b, rt).(*Term)
		if res.Sort == SBool {
			return tv{res, boolT}
		}
		return tv{res, rt}
	}
	switch x.Op {
	case "+":
		if a.Sort == SStr {
			return tv{App(SStr, "strcat", a, b), rt}
		}
		if a.Sort == SString {
			return tv{mk(SString, "str.++", a, b), rt}
		}
		return tv{Add(a, b), rt}
	case "-":
		return tv{Sub(a, b), rt}
	case "*":
		return tv{Mul(a, b), rt}
	case "/":
		if a.Sort == SReal || b.Sort == SReal {
			return tv{mk(SReal, "/", ToReal(a), ToReal(b)), rt}
		}
		return tv{App(SInt, "tdiv", a, b), rt}
	case "%":
		return tv{App(SInt, "tmod", a, b), rt}
	case "<":
		return tv{Lt(a, b), boolT}
	case "<=":
		return tv{Le(a, b), boolT}
	case ">":
		return tv{Gt(a, b), boolT}
	case ">=":
		return tv{Ge(a, b), boolT}
	case "<<":
		if k, ok := smallConst(b); ok {
			return tv{Mul(a, BigLit(new(big.Int).Lsh(big.NewInt(1), uint(k)))), rt}
		}
		return tv{Mul(a, u.pow2(e.st, b)), rt}
	}
	if name, ok := map[string]string{"&": "bitand", "|": "bitor", "^": "bitxor", "&^": "bitandnot"}[x.Op]; ok && a.Sort == SInt && b.Sort == SInt {
		// the same uninterpreted bit operations the code's operators denote on mathematical integers
		f := u.ctx.Func(name, []Sort{SInt, SInt}, SInt)
		r := App(SInt, f, a, b)
		u.bitFacts(name, a, b, r)
		return tv{r, rt}
	}
	e.fail("operator %s unsupported on %s", x.Op, a.Sort)
	return tv{}
}

// fieldOf finds field name in struct type st (including ghost fields).
func (e *Env) fieldOf(structT types.Type, name string) (idx int, ft types.Type, ghost *GhostField, ok bool) {
	if s, isS := structT.Underlying().(*types.Struct); isS {
		for i := 0; i < s.NumFields(); i++ {
			if s.Field(i).Name() == name {
				return i, s.Field(i).Type(), nil, true
			}
		}
	}
	key := namedKey(structT)
	for _, g := range e.u.prog.specs.Ghosts {
		if g.TypeName == key && g.Field == name {
			return -1, nil, g, true
		}
	}
	return 0, nil, nil, false
}

func (e *Env) selector(x *ESel) tv {
	u := e.u
	// qualified constant / spec: pkg.Name
	if id, ok := x.X.(*EIdent); ok {
		if _, isVar := e.vars[id.Name]; !isVar {
			if _, isB := e.bound[id.Name]; !isB {
				if _, isLocal := e.lookupLocalQuiet(id.Name); !isLocal {
					if p := u.prog.pkgByName(e.pkgPath, id.Name); p != nil {
						if c, ok := p.Scope().Lookup(x.Name).(*types.Const); ok {
							return tv{u.constVal(ssa.NewConst(c.Val(), c.Type())), c.Type()}
						}
						// qualified package-level function: the function value
						if f, ok := p.Scope().Lookup(x.Name).(*types.Func); ok {
							if fn := u.prog.ssaProg.FuncValue(f); fn != nil {
								return tv{u.reifyFn(&FnVal{Fn: fn}), f.Type()}
							}
						}
						// qualified package-level variable: its current value
						if v, ok := p.Scope().Lookup(x.Name).(*types.Var); ok {
							if sp := u.prog.ssaPkgs[p.Path()]; sp != nil {
								if g, ok := sp.Members[x.Name].(*ssa.Global); ok {
									gp := u.val(nil, e.st, g).(*Term)
									return tv{u.loadVal(e.st, v.Type(), gp), v.Type()}
								}
							}
						}
					}
				}
			}
		}
	}
	base := e.eval(x.X)
	// struct value
	if sv, ok := base.v.(*StructVal); ok {
		idx, ft, ghost, found := e.fieldOf(sv.T, x.Name)
		if !found || ghost != nil {
			// embedded promotion
			if r, ok := e.promoted(base, x.Name); ok {
				return r
			}
			e.fail("no field %s in %s", x.Name, sv.T)
		}
		return tv{sv.Fields[idx], ft}
	}
	p, ok := base.v.(*Term)
	if !ok || p.Sort != SPtr {
		e.fail("selector .%s on %s", x.Name, exprString(x.X))
	}
	structT := ptrElem(base.t)
	if structT == nil {
		e.fail("selector .%s on non-pointer type %v", x.Name, base.t)
	}
	idx, ft, ghost, found := e.fieldOf(structT, x.Name)
	if !found {
		if r, ok := e.promoted(base, x.Name); ok {
			return r
		}
		e.fail("no field %s in %s", x.Name, structT)
	}
	if ghost != nil {
		gt, gs := u.resolveType(ghost.GoType, ghost.PkgPath)
		return tv{u.loadLoc(e.st, fieldMapName(structT, x.Name), gs, p), gt}
	}
	s := structT.Underlying().(*types.Struct)
	if _, nested := u.structOf(ft); nested {
		// a nested struct value: represent as pointer to it so that further selection works
		return tv{u.subPtr(structT, s.Field(idx).Name(), p), types.NewPointer(ft)}
	}
	sort, _ := u.sortOf(ft)
	if fv, ok := u.loadLocVal(e.st, fieldMapName(structT, x.Name), sort, p); ok {
		return tv{fv, ft}
	}
	lv := u.loadLoc(e.st, fieldMapName(structT, x.Name), sort, p)
	e.addFact(lv, ft)
	return tv{lv, ft}
}

func (e *Env) lookupLocalQuiet(name string) (tv, bool) {
	defer func() { recover() }()
	return e.lookupLocal(name)
}

// promoted: field reached through embedded structs.
func (e *Env) promoted(base tv, name string) (tv, bool) {
	var structT types.Type
	if sv, ok := base.v.(*StructVal); ok {
		structT = sv.T
	} else {
		structT = ptrElem(base.t)
	}
	if structT == nil {
		return tv{}, false
	}
	s, ok := structT.Underlying().(*types.Struct)
	if !ok {
		return tv{}, false
	}
	for i := 0; i < s.NumFields(); i++ {
		f := s.Field(i)
		if !f.Embedded() {
			continue
		}
		inner := e.selectorOn(base, f.Name())
		it := inner.t
		if pe := ptrElem(it); pe != nil {
			it = pe
		}
		if _, _, _, found := e.fieldOf(it, name); found {
			return e.selectorOn(inner, name), true
		}
		if r, ok := e.promoted(inner, name); ok {
			return r, true
		}
	}
	return tv{}, false
}

func (e *Env) selectorOn(base tv, name string) tv {
	sub := *e
	sub.bound = map[string]envVar{}
	for k, v := range e.bound {
		sub.bound[k] = v
	}
	sub.bound["$base"] = envVar{base.v, base.t}
	return sub.selector(&ESel{&EIdent{"$base"}, name})
}

func (e *Env) index(x *EIdx) tv {
	u := e.u
	base := e.eval(x.X)
	if sv, isSV := base.v.(*StructVal); isSV {
		// a small array value: constant index selects the element
		if at, isArr := types.Unalias(sv.T).Underlying().(*types.Array); isArr {
			if lit, isLit := x.I.(*EInt); isLit && lit.Val.IsInt64() {
				if k := lit.Val.Int64(); k >= 0 && int(k) < len(sv.Fields) {
					return tv{sv.Fields[k], at.Elem()}
				}
			}
		}
	}
	s, ok := base.v.(*Term)
	if !ok {
		e.fail("index on %s", exprString(x.X))
	}
	switch s.Sort {
	case SSlice:
		i := u.toInt(u.evalTerm(e, x.I))
		st, isSlice := types.Unalias(base.t).Underlying().(*types.Slice)
		if !isSlice {
			e.fail("index on non-slice type %v", base.t)
		}
		p := mkptr(sarr(s), Eidx(soff(s), i))
		if _, isStruct := u.structOf(st.Elem()); isStruct {
			return tv{p, types.NewPointer(st.Elem())}
		}
		sort, _ := u.sortOf(st.Elem())
		lv := u.loadLoc(e.st, elemMapName(sort), sort, p)
		e.addFact(lv, st.Elem())
		return tv{lv, st.Elem()}
	case SStr, SString:
		i := u.evalTerm(e, x.I)
		return tv{u.strAt(e.st, s, i), types.Typ[types.Uint8]}
	case SRef:
		if mt, ok := types.Unalias(base.t).Underlying().(*types.Map); ok {
			// m[k] as in Go: the zero value when k is not in the map
			dom, val, _, ks, vs := u.mapNames(mt)
			k := u.evalTerm(e, x.I)
			vv := u.mapGet(e.st, val, ArrSort(SRef, ArrSort(ks, vs)))
			d := u.mapGet(e.st, dom, ArrSort(SRef, ArrSort(ks, SBool)))
			return tv{Ite(Select(Select(d, s), k), Select(Select(vv, s), k), u.zeroOfSort(vs)), mt.Elem()}
		}
	}
	if strings.HasPrefix(string(s.Sort), "(Array ") {
		i := u.evalTerm(e, x.I)
		return tv{Select(s, i), nil}
	}
	e.fail("index on %s", s.Sort)
	return tv{}
}

func (e *Env) quant(x *EQuant) tv {
	u := e.u
	sub := *e
	sub.bound = map[string]envVar{}
	for k, v := range e.bound {
		sub.bound[k] = v
	}
	var bs []Binder
	var facts []*Term
	for _, v := range x.Vars {
		t, sort := u.resolveType(v.Type, e.pkgPath)
		e.depth++
		name := fmt.Sprintf("%s!%d", v.Name, u.ctx.n)
		u.ctx.n++
		bt := &Term{name, sort}
		sub.bound[v.Name] = envVar{bt, t}
		bs = append(bs, Binder{name, sort})
		if t != nil {
			facts = append(facts, u.typeFacts(bt, t))
		}
	}
	// Type facts of values read under the binder are not added: the solver
	// does not know them for unread heap cells, so conjoining them would
	// strengthen an exists / weaken a forall depending on polarity.
	sub.facts = nil
	body := u.evalBool(&sub, x.Body)
	if x.Forall {
		return tv{Forall(bs, Implies(And(facts...), body)), types.Typ[types.Bool]}
	}
	return tv{Exists(bs, And(append(facts, body)...)), types.Typ[types.Bool]}
}

func (e *Env) callExpr(x *ECall) tv {
	u := e.u
	if x.Recv != nil {
		return e.methodCall(x)
	}
	switch x.Fn {
	case "old":
		if len(x.Args) != 1 {
			e.fail("old takes one argument")
		}
		sub := *e
		sub.st = e.old
		sub.paramsAtEntry = true // parameters denote entry values inside old(); other locals keep their current values
		sub.inOld = true
		if !e.inOld {
			sub.live = e
		}
		return sub.eval(x.Args[0])
	case "prev":
		// prev(e) in a loop step clause: e at the head of the iteration that just ended
		// (heap and local variables of that state)
		if len(x.Args) != 1 || e.prevSt == nil {
			e.fail("prev(e) is only meaningful in a loop `step` clause")
		}
		sub := *e
		sub.st = e.prevSt
		sub.prevSt = nil
		return sub.eval(x.Args[0])
	case "len":
		r := e.eval(x.Args[0])
		return tv{u.lenOf(e.st, r.v, r.t), types.Typ[types.Int]}
	case "cap":
		r := e.eval(x.Args[0])
		return tv{scap(r.v.(*Term)), types.Typ[types.Int]}
	case "fmtd", "fmtf":
		// fmtd(i) / fmtf(x): the text fmt renders for %d of the integer i / %f of the float x
		v := u.evalTerm(e, x.Args[0])
		if x.Fn == "fmtd" {
			return tv{App(SStr, u.ctx.Func("fmtd", []Sort{SInt}, SStr), u.toInt(v)), types.Typ[types.String]}
		}
		if v.Sort == SInt {
			v = ToReal(v)
		}
		return tv{App(SStr, u.ctx.Func("fmtf", []Sort{SReal}, SStr), v), types.Typ[types.String]}
	case "aliases":
		// aliases(a, b): the two slices (or pointers) live in the same allocation
		ra, rb := e.eval(x.Args[0]), e.eval(x.Args[1])
		ta, okA := ra.v.(*Term)
		tb, okB := rb.v.(*Term)
		if !okA || !okB {
			e.fail("aliases(): slices or pointers expected")
		}
		refOf := func(t *Term) *Term {
			switch t.Sort {
			case SSlice:
				return sarr(t)
			case SPtr:
				return parr(t)
			case SRef:
				return t
			}
			e.fail("aliases() of %s", t.Sort)
			return nil
		}
		return tv{Eq(refOf(ta), refOf(tb)), types.Typ[types.Bool]}
	case "fresh":
		r := e.eval(x.Args[0])
		t := r.v.(*Term)
		var ref *Term
		switch t.Sort {
		case SPtr:
			ref = parr(t)
		case SSlice:
			ref = sarr(t)
		case SRef:
			ref = t
		default:
			e.fail("fresh of %s", t.Sort)
		}
		return tv{And(Ge(App(SInt, "birth", ref), e.old.now), Not(Eq(ref, NilRef))), types.Typ[types.Bool]}
	case "int", "int64", "int32", "uint64", "uint32", "uint8", "uint", "float64", "real":
		r := e.eval(x.Args[0])
		t := r.v.(*Term)
		switch x.Fn {
		case "float64", "real":
			if t.Sort.IsBV() {
				t = mk(SInt, "bv2nat", t)
			}
			return tv{ToReal(t), types.Typ[types.Float64]}
		default:
			bt := types.Universe.Lookup(x.Fn).Type()
			want, _ := u.sortOf(bt)
			return tv{u.convert(e.st, t, r.t0(), bt).(*Term), bt}
			_ = want
		}
	case "str":
		// str(b): the string conversion of a byte slice (same function the code's string(b) denotes)
		r := e.eval(x.Args[0])
		b, ok := r.v.(*Term)
		if !ok || b.Sort != SSlice {
			e.fail("str(): byte slice expected, got %T", r.v)
		}
		ts := SStr
		if u.smtStrings {
			ts = SString
		}
		return tv{u.strOfBytes(e.st, b, ts), types.Typ[types.String]}
	case "fncalls":
		// fncalls(f, "name"): the function value f is (a closure of) a function of this
		// package whose body calls a function or method named name directly
		if len(x.Args) != 2 {
			e.fail("fncalls(f, \"name\")")
		}
		nm, ok := x.Args[1].(*EStr)
		if !ok {
			// a spec-function parameter bound to a literal
			if t, isT := e.eval(x.Args[1]).v.(*Term); isT {
				if lit, found := u.ctx.StrLitTable()[t.S]; found {
					nm, ok = &EStr{Val: lit}, true
				}
			}
		}
		if !ok {
			e.fail("fncalls(f, \"name\"): the name must be a string literal")
		}
		fv := e.eval(x.Args[0])
		f, isTerm := fv.v.(*Term)
		if !isTerm {
			f = u.reifyFn(fv.v)
		}
		if f.Sort != SFn {
			e.fail("fncalls(): function value expected, got %s", f.Sort)
		}
		fs := u.ctx.Func("fnstatic", []Sort{SFn}, SInt)
		var alts []*Term
		for _, cand := range u.prog.callersOf(u.fn, nm.Val) {
			alts = append(alts, Eq(App(SInt, fs, f), IntLit(int64(u.prog.fnID(cand)))))
		}
		for _, k := range u.prog.boundKeys(u.fn, nm.Val) {
			alts = append(alts, Eq(App(SInt, fs, f), IntLit(int64(u.prog.fnIDKey(k)))))
		}
		if len(alts) == 0 {
			return tv{False, types.Typ[types.Bool]}
		}
		return tv{Or(alts...), types.Typ[types.Bool]}
	case "arrayof", "offsetof":
		// arrayof(s): the contents of the backing array of a slice of scalars, as a
		// ghost array indexed by position; offsetof(s): position of s[0] in it.
		// s[i] == arrayof(s)[offsetof(s)+i].
		r := e.eval(x.Args[0])
		b, ok := r.v.(*Term)
		if !ok || b.Sort != SSlice {
			e.fail("%s(): slice expected", x.Fn)
		}
		if x.Fn == "offsetof" {
			return tv{soff(b), types.Typ[types.Int]}
		}
		st, isSlice := types.Unalias(r.t).Underlying().(*types.Slice)
		if !isSlice {
			e.fail("arrayof(): slice type expected")
		}
		sort, scalar := u.sortOf(st.Elem())
		if !scalar {
			e.fail("arrayof(): slice of scalars expected")
		}
		m := u.heapGet(e.st, elemMapName(sort), sort)
		return tv{Select(m, sarr(b)), nil}
	case "constmap":
		// constmap("KeySort", v): the ghost array mapping every key to v
		ks, ok := x.Args[0].(*EStr)
		if !ok {
			e.fail("constmap(\"Sort\", value)")
		}
		_, ksort := u.resolveType(ks.Val, e.pkgPath)
		v := u.evalTerm(e, x.Args[1])
		as := ArrSort(ksort, v.Sort)
		return tv{&Term{fmt.Sprintf("((as const %s) %s)", as, v.S), as}, nil}
	case "upd":
		// upd(a, i, v): the array a with a[i] := v (ghost arrays)
		a := u.evalTerm(e, x.Args[0])
		i := u.evalTerm(e, x.Args[1])
		v := u.evalTerm(e, x.Args[2])
		if !strings.HasPrefix(string(a.Sort), "(Array ") {
			e.fail("upd: array expected")
		}
		return tv{Store(a, i, v), nil}
	case "fdiv":
		// fdiv(a, b): floor division (b > 0), e.g. the day number of an instant
		a, b := u.evalTerm(e, x.Args[0]), u.evalTerm(e, x.Args[1])
		return tv{mk(SInt, "div", a, b), types.Typ[types.Int]}
	case "abs":
		t := u.evalTerm(e, x.Args[0])
		return tv{Ite(Ge(t, zeroLike(t)), t, Neg(t)), nil}
	case "min", "max":
		a, b := u.evalTerm(e, x.Args[0]), u.evalTerm(e, x.Args[1])
		a, b = coerce(a, b)
		if x.Fn == "min" {
			return tv{Ite(Le(a, b), a, b), nil}
		}
		return tv{Ite(Ge(a, b), a, b), nil}
	case "has":
		// has(m, k): key k is in map m
		m := e.eval(x.Args[0])
		mt, ok := types.Unalias(m.t).Underlying().(*types.Map)
		if !ok {
			e.fail("has: map expected")
		}
		dom, _, _, ks, _ := u.mapNames(mt)
		k := u.evalTerm(e, x.Args[1])
		d := u.mapGet(e.st, dom, ArrSort(SRef, ArrSort(ks, SBool)))
		return tv{Select(Select(d, m.v.(*Term)), k), types.Typ[types.Bool]}
	case "held":
		// held(x.mtx): the unit holds the mutex field mtx of *x at this point (tracked by
		// the Lock / Unlock calls of the unit; used in `requires !held(..)` of a function
		// that takes that lock itself - sync.Mutex is not reentrant)
		sel, ok := x.Args[0].(*ESel)
		if !ok {
			e.fail("held(x.mutexField) expected")
		}
		base := e.eval(sel.X)
		bt, ok := base.v.(*Term)
		if !ok {
			e.fail("held(): pointer base expected")
		}
		_, isHeld := e.st.held[bt.S+"|"+sel.Name]
		return tv{BoolLit(isHeld), types.Typ[types.Bool]}
	case "isnil":
		r := e.eval(x.Args[0])
		t := r.v.(*Term)
		switch t.Sort {
		case SPtr:
			return tv{Eq(parr(t), NilRef), types.Typ[types.Bool]}
		case SSlice:
			return tv{Eq(sarr(t), NilRef), types.Typ[types.Bool]}
		default:
			return tv{Eq(t, u.zeroOfSort(t.Sort)), types.Typ[types.Bool]}
		}
	case "typeis":
		// typeis(x, "pkg.T") / typeis(x, "*pkg.T")
		r := e.eval(x.Args[0])
		name, ok := x.Args[1].(*EStr)
		if !ok {
			e.fail("typeis(x, \"type\")")
		}
		t, _ := u.resolveType(name.Val, e.pkgPath)
		if t == nil {
			e.fail("typeis: unknown type %s", name.Val)
		}
		u.ifacePrelude()
		return tv{Eq(App(SInt, "itag", r.v.(*Term)), u.typeTag(t)), types.Typ[types.Bool]}
	case "unbox":
		r := e.eval(x.Args[0])
		name, ok := x.Args[1].(*EStr)
		if !ok {
			e.fail("unbox(x, \"type\")")
		}
		t, sort := u.resolveType(name.Val, e.pkgPath)
		if t == nil {
			e.fail("unbox: unknown type %s", name.Val)
		}
		f := u.ctx.Func("unbox!"+typeKey(t), []Sort{SIface}, sort)
		return tv{App(sort, f, r.v.(*Term)), t}
	}
	if sf, ok := u.prog.specs.SpecFns[x.Fn]; ok {
		return e.specCall(sf, x.Args)
	}
	// a function of the package that is declared `flag function`: the same uninterpreted
	// function of its arguments that a call in the code denotes
	if key := qualify(x.Fn, e.pkgPath); u.prog.specs.Contracts[key] != nil && u.prog.specs.Contracts[key].Flags["function"] != "" {
		if fn := u.prog.funcs[key]; fn != nil && fn.Signature.Results().Len() == 1 {
			var as []*Term
			var sorts []Sort
			var flat func(a Val)
			flat = func(a Val) {
				switch v := a.(type) {
				case *Term:
					as = append(as, v)
					sorts = append(sorts, v.Sort)
				case *StructVal:
					for _, f := range v.Fields {
						flat(f)
					}
				default:
					e.fail("function %s: scalar arguments expected", x.Fn)
				}
			}
			for i, a := range x.Args {
				r := e.eval(a)
				if t, isT := r.v.(*Term); isT && i < fn.Signature.Params().Len() {
					// untyped constants take the parameter's sort
					if want, scalar := u.sortOf(fn.Signature.Params().At(i).Type()); scalar && want != t.Sort {
						r.v = u.convert(e.st, t, r.t0(), fn.Signature.Params().At(i).Type())
					}
				}
				flat(r.v)
			}
			rt := fn.Signature.Results().At(0).Type()
			rsort, _ := u.sortOf(rt)
			return tv{App(rsort, u.ctx.Func("fn!"+key, sorts, rsort), as...), rt}
		}
	}
	e.fail("unknown function %s in contract", x.Fn)
	return tv{}
}

// methodCall: x.M(args) in a contract denotes the result of a side-effect-free
// method that has a contract: either a 'function' contract (uninterpreted
// function of receiver and arguments) or one whose ensures defines the result
// by an equation "result == E".
func (e *Env) methodCall(x *ECall) tv {
	u := e.u
	recv := e.eval(x.Recv)
	if recv.t == nil {
		e.fail("method call %s on untyped value", x.Fn)
	}
	var keys []string
	t := types.Unalias(recv.t)
	if pe := ptrElem(t); pe != nil {
		keys = append(keys, "(*"+namedKey(pe)+")."+x.Fn, "("+namedKey(pe)+")."+x.Fn)
	} else {
		keys = append(keys, "("+namedKey(t)+")."+x.Fn)
	}
	var ct *Contract
	var key string
	for _, k := range keys {
		if c := u.prog.specs.Contracts[k]; c != nil {
			ct, key = c, k
			break
		}
	}
	if ct == nil {
		args := append([]Expr{x.Recv}, x.Args...)
		if sf, ok := u.prog.specs.SpecFns[x.Fn]; ok {
			return e.specCall(sf, args)
		}
		e.fail("method %s has no contract (tried %v)", x.Fn, keys)
	}
	if ct.Extern {
		u.externsUsed[key] = true
	}
	sig := u.prog.methodSig(recv.t, x.Fn)
	if sig == nil {
		e.fail("method %s not found on %s", x.Fn, recv.t)
	}
	args := []Val{recv.v}
	if pe := ptrElem(t); pe != nil && strings.HasPrefix(key, "("+namedKey(pe)+")") {
		// value-receiver method called through a pointer: the receiver is the pointee
		if p, isT := recv.v.(*Term); isT && p.Sort == SPtr {
			if _, isStruct := u.structOf(pe); isStruct {
				args[0] = u.loadVal(e.st, pe, p)
			}
		}
	}
	for _, a := range x.Args {
		args = append(args, e.eval(a).v)
	}
	rs := sig.Results()
	if rs.Len() != 1 {
		e.fail("method %s: exactly one result expected in a contract expression", x.Fn)
	}
	rt := rs.At(0).Type()
	if ct.Flags["function"] != "" {
		var as []*Term
		var sorts []Sort
		var flat func(a Val)
		flat = func(a Val) {
			switch v := a.(type) {
			case *Term:
				as = append(as, v)
				sorts = append(sorts, v.Sort)
			case *StructVal:
				for _, f := range v.Fields {
					flat(f)
				}
			default:
				e.fail("method %s: scalar arguments expected", x.Fn)
			}
		}
		for _, a := range args {
			flat(a)
		}
		rsort, _ := u.sortOf(rt)
		f := u.ctx.Func("fn!"+key, sorts, rsort)
		return tv{App(rsort, f, as...), rt}
	}
	for _, en := range ct.Ensures {
		if b, ok := en.Expr.(*EBin); ok && b.Op == "==" {
			if id, ok := b.L.(*EIdent); ok && id.Name == "result" {
				vars, _ := u.bindArgs(sig, args, true)
				sub := *e
				sub.vars = vars
				sub.bound = map[string]envVar{}
				sub.fr = nil
				sub.pkgPath = ct.PkgPath
				r := sub.eval(b.R)
				r.t = rt
				return r
			}
		}
	}
	e.fail("method %s: contract is neither 'flag function' nor defines result by an equation", x.Fn)
	return tv{}
}

func (p *Program) methodSig(t types.Type, name string) *types.Signature {
	// unexported methods are only found with the package of the receiver type
	var pkg *types.Package
	nt := types.Unalias(t)
	if pe := ptrElem(nt); pe != nil {
		nt = types.Unalias(pe)
	}
	if n, ok := nt.(*types.Named); ok && n.Obj() != nil {
		pkg = n.Obj().Pkg()
	}
	obj, _, _ := types.LookupFieldOrMethod(t, true, pkg, name)
	if f, ok := obj.(*types.Func); ok {
		return f.Type().(*types.Signature)
	}
	return nil
}

func (r tv) t0() types.Type {
	if r.t == nil {
		return types.Typ[types.Int]
	}
	return r.t
}

// specCall: defined spec functions are expanded in place (they may read the
// heap of the state they are evaluated in); undefined ones are uninterpreted.
func (e *Env) specCall(sf *SpecFn, args []Expr) tv {
	u := e.u
	if len(args) != len(sf.Params) {
		e.fail("spec fn %s: %d arguments expected", sf.Name, len(sf.Params))
	}
	if e.depth > 40 {
		e.fail("spec fn %s: expansion too deep (recursive definitions must be uninterpreted + axioms)", sf.Name)
	}
	rt, rsort := u.resolveType(sf.Ret, sf.PkgPath)
	var vals []tv
	for _, a := range args {
		vals = append(vals, e.eval(a))
	}
	if sf.Body == nil {
		var sorts []Sort
		var ts []*Term
		for i, p := range sf.Params {
			_, ps := u.resolveType(p.Type, sf.PkgPath)
			t, ok := vals[i].v.(*Term)
			if !ok {
				e.fail("spec fn %s: scalar argument expected", sf.Name)
			}
			if t.Sort != ps {
				if ps == SReal && t.Sort == SInt {
					t = ToReal(t)
				} else if ps.IsBV() && t.Sort == SInt {
					t = e.intLitToBV(t, ps)
				} else if t.S == NilPtr.S {
					t = u.zeroOfSort(ps)
				} else {
					e.fail("spec fn %s: argument %d has sort %s, want %s", sf.Name, i, t.Sort, ps)
				}
			}
			sorts = append(sorts, ps)
			ts = append(ts, t)
		}
		f := u.ctx.Func("spec!"+sf.Name, sorts, rsort)
		return tv{App(rsort, f, ts...), rt}
	}
	sub := *e
	sub.depth = e.depth + 1
	sub.pkgPath = sf.PkgPath
	sub.fr = nil
	sub.vars = map[string]envVar{}
	sub.bound = map[string]envVar{}
	for i, p := range sf.Params {
		pt, _ := u.resolveType(p.Type, sf.PkgPath)
		if pt == nil {
			pt = vals[i].t
		}
		sub.bound[p.Name] = envVar{vals[i].v, pt}
	}
	r := sub.eval(sf.Body)
	if rt != nil {
		r.t = rt
	}
	return r
}

// resolveType resolves a type written in a contract.
func (u *Unit) resolveType(s string, pkgPath string) (types.Type, Sort) {
	s = strings.TrimSpace(s)
	switch s {
	case "Int":
		return nil, SInt
	case "Real":
		return nil, SReal
	case "Bool":
		return nil, SBool
	case "Str":
		return nil, SStr
	case "Ptr":
		return nil, SPtr
	case "Ref":
		return nil, SRef
	case "Slice":
		return nil, SSlice
	case "Iface":
		return nil, SIface
	case "Fn":
		return nil, SFn
	case "BV64":
		return nil, SBV64
	case "BV32":
		return nil, SBV32
	case "BV8":
		return nil, SBV8
	}
	if strings.HasPrefix(s, "Array[") && strings.HasSuffix(s, "]") {
		inner := s[len("Array[") : len(s)-1]
		parts := splitTop(inner, ',')
		if len(parts) == 2 {
			_, a := u.resolveType(parts[0], pkgPath)
			_, b := u.resolveType(parts[1], pkgPath)
			return nil, ArrSort(a, b)
		}
	}
	if s == "recvtype" && u.fn != nil && u.fn.Signature.Recv() != nil {
		// the type of the unit's receiver, as written (names a generic receiver
		// type such as *Cache[T], which has no spelling outside its declaration)
		t := u.fn.Signature.Recv().Type()
		sort, _ := u.sortOf(t)
		return t, sort
	}
	t := u.prog.parseType(s, pkgPath)
	if t == nil {
		panic(unsupported{fmt.Sprintf("contract: unknown type %q (package %s)", s, pkgPath)})
	}
	sort, scalar := u.sortOf(t)
	if !scalar {
		panic(unsupported{fmt.Sprintf("contract: type %q is not scalar", s)})
	}
	return t, sort
}

func (p *Program) parseType(s string, pkgPath string) types.Type {
	s = strings.TrimSpace(s)
	if strings.HasPrefix(s, "*") {
		if t := p.parseType(s[1:], pkgPath); t != nil {
			return types.NewPointer(t)
		}
		return nil
	}
	if strings.HasPrefix(s, "[]") {
		if t := p.parseType(s[2:], pkgPath); t != nil {
			return types.NewSlice(t)
		}
		return nil
	}
	if strings.HasPrefix(s, "map[") {
		depth := 0
		for i := 3; i < len(s); i++ {
			if s[i] == '[' {
				depth++
			} else if s[i] == ']' {
				depth--
				if depth == 0 {
					k := p.parseType(s[4:i], pkgPath)
					v := p.parseType(s[i+1:], pkgPath)
					if k != nil && v != nil {
						return types.NewMap(k, v)
					}
					return nil
				}
			}
		}
		return nil
	}
	if obj := types.Universe.Lookup(s); obj != nil {
		if tn, ok := obj.(*types.TypeName); ok {
			return tn.Type()
		}
	}
	if i := strings.Index(s, "["); i > 0 && strings.HasSuffix(s, "]") {
		// instantiated generic: Name[Arg, ...]
		gen := p.parseType(s[:i], pkgPath)
		named, ok := gen.(*types.Named)
		if !ok {
			return nil
		}
		var targs []types.Type
		for _, a := range splitTop(s[i+1:len(s)-1], ',') {
			t := p.parseType(a, pkgPath)
			if t == nil {
				return nil
			}
			targs = append(targs, t)
		}
		inst, err := types.Instantiate(nil, named, targs, false)
		if err != nil {
			return nil
		}
		return inst
	}
	// qualified: path.Name or pkgname.Name
	if i := strings.LastIndex(s, "."); i >= 0 {
		q, n := s[:i], s[i+1:]
		if tp := p.typesPkgs[q]; tp != nil {
			if tn, ok := tp.Scope().Lookup(n).(*types.TypeName); ok {
				return tn.Type()
			}
		}
		if tp := p.pkgByName(pkgPath, q); tp != nil {
			if tn, ok := tp.Scope().Lookup(n).(*types.TypeName); ok {
				return tn.Type()
			}
		}
		return nil
	}
	if tp := p.typesPkgs[pkgPath]; tp != nil {
		if tn, ok := tp.Scope().Lookup(s).(*types.TypeName); ok {
			return tn.Type()
		}
	}
	return nil
}

// pkgByName: package imported under name by pkgPath (or any loaded package with that name).
func (p *Program) pkgByName(pkgPath, name string) *types.Package {
	// an import alias used by one of the package's files (v11 "…/common/v1")
	if pk := p.pkgs[pkgPath]; pk != nil {
		for _, f := range pk.Syntax {
			for _, im := range f.Imports {
				if im.Name != nil && im.Name.Name == name {
					if path, err := strconv.Unquote(im.Path.Value); err == nil {
						if tp := p.typesPkgs[path]; tp != nil {
							return tp
						}
						if tp := p.typesPkgs[pkgPath]; tp != nil {
							for _, imp := range tp.Imports() {
								if imp.Path() == path {
									return imp
								}
							}
						}
					}
				}
			}
		}
	}
	if tp := p.typesPkgs[pkgPath]; tp != nil {
		for _, imp := range tp.Imports() {
			if imp.Name() == name {
				return imp
			}
		}
	}
	var found *types.Package
	for _, tp := range p.typesPkgs {
		if tp.Name() == name {
			if found != nil && found != tp {
				return nil // ambiguous
			}
			found = tp
		}
	}
	return found
}

// ---------------------------------------------------------------------------
// modifies targets

func (u *Unit) evalLoc(env *Env, x Expr, src string) []frameItem {
	switch x := x.(type) {
	case *EIdent:
		if x.Name == "allocated" {
			// every object allocated since the unit was entered (loop frames only)
			return []frameItem{{Map: "*allocated*", Src: src}}
		}
		if g, ok := u.prog.specs.GhostVars[x.Name]; ok {
			_, gs := u.resolveType(g.GoType, g.PkgPath)
			u.heapGet(env.st, "G!"+x.Name, gs)
			return []frameItem{{Map: "G!" + x.Name, Elem: gs, Ptr: ghostPtr, Src: src}}
		}
		if env.fr != nil {
			// a local variable that lives in a heap cell (its address is taken)
			for _, b := range env.fr.fn.Blocks {
				for _, in := range b.Instrs {
					if a, ok := in.(*ssa.Alloc); ok && a.Comment == x.Name && !isCellAlloc(a) {
						if p, ok := env.fr.regs[a].(*Term); ok {
							t := ptrElem(a.Type())
							if _, isS := u.structOf(t); isS {
								return u.structItems(env, t, p, src)
							}
							sort, _ := u.sortOf(t)
							u.heapGet(env.st, elemMapName(sort), sort)
							return []frameItem{{Map: elemMapName(sort), Elem: sort, Ptr: p, Src: src}}
						}
					}
				}
			}
		}
		if p, t, ok := env.freeVar(x.Name); ok {
			if _, isS := u.structOf(t); isS {
				return u.structItems(env, t, p, src)
			}
			sort, _ := u.sortOf(t)
			u.heapGet(env.st, elemMapName(sort), sort)
			return []frameItem{{Map: elemMapName(sort), Elem: sort, Ptr: p, Src: src}}
		}
		env.fail("modifies %s: not a captured variable", src)
	case *ECall:
		switch x.Fn {
		case "elems":
			if id, ok := x.Args[0].(*EIdent); ok && env.fr != nil {
				// a local array variable: all of its elements
				for _, b := range env.fr.fn.Blocks {
					for _, in := range b.Instrs {
						a, ok := in.(*ssa.Alloc)
						if !ok || a.Comment != id.Name {
							continue
						}
						at, isArr := types.Unalias(ptrElem(a.Type())).Underlying().(*types.Array)
						if !isArr {
							continue
						}
						p, ok := env.fr.regs[a].(*Term)
						if !ok {
							continue
						}
						var out []frameItem
						u.forEachElemMap(at.Elem(), parr(p), func(name string, sort Sort) {
							u.heapGet(env.st, name, sort)
							out = append(out, frameItem{Map: name, Elem: sort, Ptr: mkptr(parr(p), IntLit(0)), AllIdx: true, Src: src})
						})
						return out
					}
				}
			}
			r := env.eval(x.Args[0])
			s, ok := r.v.(*Term)
			if !ok || s.Sort != SSlice {
				env.fail("elems(): slice expected in %s", src)
			}
			st := types.Unalias(r.t).Underlying().(*types.Slice)
			var out []frameItem
			u.forEachElemMap(st.Elem(), sarr(s), func(name string, sort Sort) {
				u.heapGet(env.st, name, sort)
				out = append(out, frameItem{Map: name, Elem: sort, Ptr: mkptr(sarr(s), IntLit(0)), AllIdx: true, Src: src})
			})
			return out
		case "fields":
			r := env.eval(x.Args[0])
			p := r.v.(*Term)
			st := ptrElem(r.t)
			return u.structItems(env, st, p, src)
		case "allof":
			// allof(T.f): the whole field map
			sel, ok := x.Args[0].(*ESel)
			if !ok {
				env.fail("allof(T.f) expected")
			}
			tn := exprString(sel.X)
			t := u.prog.parseType(tn, env.pkgPath)
			if t == nil {
				env.fail("allof: unknown type %s", tn)
			}
			_, ft, ghost, found := env.fieldOf(t, sel.Name)
			if !found {
				env.fail("allof: no field %s.%s", tn, sel.Name)
			}
			var sort Sort
			if ghost != nil {
				_, sort = u.resolveType(ghost.GoType, ghost.PkgPath)
			} else {
				sort, _ = u.sortOf(ft)
			}
			u.heapGet(env.st, fieldMapName(t, sel.Name), sort)
			return []frameItem{{Map: fieldMapName(t, sel.Name), Elem: sort, Src: src}}
		case "mapof":
			r := env.eval(x.Args[0])
			return []frameItem{{Map: "map", Ptr: r.v.(*Term), Src: src}}
		case "allelems":
			// allelems(T): every element of every slice / array of element type T
			// (coarse: used where elements of nested slices are written)
			tn := exprString(x.Args[0])
			t := u.prog.parseType(tn, env.pkgPath)
			if t == nil {
				env.fail("allelems: unknown type %s", tn)
			}
			sort, _ := u.sortOf(t)
			u.heapGet(env.st, elemMapName(sort), sort)
			return []frameItem{{Map: elemMapName(sort), Elem: sort, Src: src}}
		}
	case *ESel:
		base := env.eval(x.X)
		p, ok := base.v.(*Term)
		if !ok || p.Sort != SPtr {
			env.fail("modifies %s: pointer base expected", src)
		}
		st := ptrElem(base.t)
		_, ft, ghost, found := env.fieldOf(st, x.Name)
		if !found {
			// promoted through embedding
			if s, ok := st.Underlying().(*types.Struct); ok {
				for i := 0; i < s.NumFields(); i++ {
					if !s.Field(i).Embedded() {
						continue
					}
					inner := env.selectorOn(base, s.Field(i).Name())
					it := inner.t
					if pe := ptrElem(it); pe != nil {
						it = pe
					}
					if _, _, _, ok := env.fieldOf(it, x.Name); ok {
						sub := *env
						sub.bound = map[string]envVar{"$b": {inner.v, inner.t}}
						for k, v := range env.bound {
							sub.bound[k] = v
						}
						return u.evalLoc(&sub, &ESel{&EIdent{"$b"}, x.Name}, src)
					}
				}
			}
			env.fail("modifies %s: no such field", src)
		}
		if ghost != nil {
			_, sort := u.resolveType(ghost.GoType, ghost.PkgPath)
			u.heapGet(env.st, fieldMapName(st, x.Name), sort)
			return []frameItem{{Map: fieldMapName(st, x.Name), Elem: sort, Ptr: p, Src: src}}
		}
		if _, nested := u.structOf(ft); nested {
			return u.structItems(env, ft, u.subPtr(st, x.Name, p), src)
		}
		sort, _ := u.sortOf(ft)
		u.heapGet(env.st, fieldMapName(st, x.Name), sort)
		return []frameItem{{Map: fieldMapName(st, x.Name), Elem: sort, Ptr: p, Src: src}}
	case *EIdx:
		base := env.eval(x.X)
		s, ok := base.v.(*Term)
		if !ok || s.Sort != SSlice {
			env.fail("modifies %s: slice expected", src)
		}
		i := u.evalTerm(env, x.I)
		st := types.Unalias(base.t).Underlying().(*types.Slice)
		p := mkptr(sarr(s), Eidx(soff(s), i))
		var out []frameItem
		u.forEachElemMap(st.Elem(), sarr(s), func(name string, sort Sort) {
			u.heapGet(env.st, name, sort)
			out = append(out, frameItem{Map: name, Elem: sort, Ptr: p, Src: src})
		})
		return out
	case *EUn:
		if x.Op == "*" {
			r := env.eval(x.X)
			if a, ok := r.v.(*AddrVal); ok {
				return []frameItem{{Map: a.Map, Elem: a.Elem, Ptr: a.Ptr, Src: src}}
			}
			p := r.v.(*Term)
			el := ptrElem(r.t)
			if _, isS := u.structOf(el); isS {
				return u.structItems(env, el, p, src)
			}
			sort, _ := u.sortOf(el)
			u.heapGet(env.st, elemMapName(sort), sort)
			return []frameItem{{Map: elemMapName(sort), Elem: sort, Ptr: p, Src: src}}
		}
	}
	env.fail("unsupported modifies target %s", src)
	return nil
}

func (u *Unit) structItems(env *Env, t types.Type, p *Term, src string) []frameItem {
	s, ok := u.structOf(t)
	if !ok {
		env.fail("fields(): struct pointer expected in %s", src)
	}
	var out []frameItem
	for i := 0; i < s.NumFields(); i++ {
		f := s.Field(i)
		if _, nested := u.structOf(f.Type()); nested {
			out = append(out, u.structItems(env, f.Type(), u.subPtr(t, f.Name(), p), src)...)
			continue
		}
		sort, _ := u.sortOf(f.Type())
		u.heapGet(env.st, fieldMapName(t, f.Name()), sort)
		out = append(out, frameItem{Map: fieldMapName(t, f.Name()), Elem: sort, Ptr: p, Src: src})
	}
	for _, g := range u.prog.specs.Ghosts {
		if g.TypeName == namedKey(t) {
			_, sort := u.resolveType(g.GoType, g.PkgPath)
			u.heapGet(env.st, fieldMapName(t, g.Field), sort)
			out = append(out, frameItem{Map: fieldMapName(t, g.Field), Elem: sort, Ptr: p, Src: src})
		}
	}
	return out
}

// renamedTo: name is not declared by the function any more; if the reference
// tree had a parameter or local of that name, the variable now at the same
// position (and, for locals, of the same type) is meant.
func (u *Unit) renamedTo(e *Env, name string) string {
	fn := u.fn
	if e.fr != nil {
		fn = e.fr.fn
	}
	if fn == nil {
		return ""
	}
	h, ok := u.prog.nameHints[funcKey(fn)]
	if !ok {
		return ""
	}
	known := map[string]bool{}
	for _, n := range h.Params {
		known[n] = true
	}
	for _, n := range h.FreeVars {
		known[n] = true
	}
	for _, l := range h.Locals {
		known[l.Name] = true
	}
	for i, n := range h.Params {
		if n == name && i < len(fn.Params) && len(h.Params) == len(fn.Params) {
			if cur := fn.Params[i].Name(); cur != name && !known[cur] {
				u.note("contract name " + name + " re-bound to the renamed parameter " + cur)
				return cur
			}
		}
	}
	for i, n := range h.FreeVars {
		if n == name && i < len(fn.FreeVars) && len(h.FreeVars) == len(fn.FreeVars) {
			if cur := fn.FreeVars[i].Name(); cur != name && !known[cur] {
				u.note("contract name " + name + " re-bound to the renamed captured variable " + cur)
				return cur
			}
		}
	}
	cur := namedLocals(fn)
	for _, l := range h.Locals {
		if l.Name != name {
			continue
		}
		if len(cur) == len(h.Locals) {
			if l.Ord >= len(cur) {
				continue
			}
			c := cur[l.Ord]
			if c.Comment != name && !known[c.Comment] && ptrElem(c.Type()).String() == l.Type {
				u.note("contract name " + name + " re-bound to the renamed local " + c.Comment)
				return c.Comment
			}
			continue
		}
		// locals were added or removed as well: align the declaration order from the
		// front (everything declared before the renamed local is where it was) and from
		// the back; accept a candidate only if the alignments that apply agree
		cand := ""
		try := func(ord int, same func(i int) bool) {
			if ord < 0 || ord >= len(cur) {
				return
			}
			c := cur[ord]
			if c.Comment == name || known[c.Comment] || ptrElem(c.Type()).String() != l.Type || !same(ord) {
				return
			}
			if cand == "" {
				cand = c.Comment
			} else if cand != c.Comment {
				cand = "?"
			}
		}
		try(l.Ord, func(ord int) bool {
			for i := 0; i < ord && i < len(h.Locals); i++ {
				if cur[i].Comment != h.Locals[i].Name && known[cur[i].Comment] {
					return false
				}
			}
			return true
		})
		off := len(cur) - len(h.Locals)
		try(l.Ord+off, func(ord int) bool {
			for i := ord + 1; i < len(cur); i++ {
				if j := i - off; j >= 0 && j < len(h.Locals) && cur[i].Comment != h.Locals[j].Name && known[cur[i].Comment] {
					return false
				}
			}
			return true
		})
		if cand != "" && cand != "?" {
			u.note("contract name " + name + " re-bound to the renamed local " + cand)
			return cand
		}
	}
	return ""
}
