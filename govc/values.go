package main

// Symbolic values, states and the heap model.

import (
	"fmt"
	"go/types"
	"math/big"
	"strings"

	"golang.org/x/tools/go/ssa"
)

type Val interface{}

type StructVal struct {
	T      types.Type // the (possibly named) struct type
	Fields []Val
}
type TupleVal struct{ Elems []Val }

// AddrVal is the address of a scalar that lives in a *field* map.
// (Addresses of slice elements / heap cells are plain Ptr terms and use the
// element map of their static type.)
type AddrVal struct {
	Map  string
	Elem Sort
	Ptr  *Term
	Typ  types.Type // type of the pointee
}

// CellAddr is the address of a non-escaping local variable.
type CellAddr struct{ Alloc *ssa.Alloc }

// CellFieldAddr is the address of a field of a private struct temporary (a cell holding a record).
type CellFieldAddr struct {
	Alloc *ssa.Alloc
	Field int
}

type ClosureVal struct {
	Fn       *ssa.Function
	Bindings []Val
}
type FnVal struct{ Fn *ssa.Function }
type BuiltinVal struct{ Name string }

// MethodVal: bound method value (x.M as a func value)
type BoundVal struct {
	Fn   *ssa.Function
	Recv Val
}

type deferred struct {
	instr *ssa.Defer
	fn    Val
	args  []Val
	call  *ssa.CallCommon
}

type State struct {
	pc     *Term
	guard  *Term // branch decisions only (quantifier-free); used as ite guards at joins
	cells  map[*ssa.Alloc]Val
	heap   map[string]*Term
	epoch  int
	now    *Term
	defers map[int][]deferred // by frame id
	dead   bool
	edges  map[*ssa.BasicBlock]*Term // edge conditions of the last merge (for Phi)
	boxed  []*localObj               // cells whose address was boxed into an interface value
	locals []*localObj               // heap objects allocated by this activation that have not escaped yet
	links  []epochLink               // "allocated" havocs: how this epoch's base maps relate to an earlier epoch's
	fwd    map[string]fwdEntry       // field maps holding a field address: the last store, forwarded to loads at the same place
	held   map[string]*Term          // locks with an invariant currently held: "<struct pointer term>|<mutex field>" -> the struct pointer
}

// fwdEntry: "map[ptr] was just assigned val (a field address, which has no term
// of its own)"; valid while the map has not been written again.
type fwdEntry struct {
	heap *Term // the map term right after the store
	ptr  string
	val  Val
}

// localObj: an object allocated by the code under verification. Until its
// address is handed to a call, a closure, an interface or the heap, no other
// code can reach it, so it survives a havoc caused by an uncontracted call.
type localObj struct {
	ptr *Term
	t   types.Type
}

type epochLink struct {
	from, to int
	since    *Term
}

func (s *State) clone() *State {
	n := &State{pc: s.pc, guard: s.guard, epoch: s.epoch, now: s.now, dead: s.dead}
	n.links = append([]epochLink(nil), s.links...)
	n.locals = append([]*localObj(nil), s.locals...)
	n.boxed = append([]*localObj(nil), s.boxed...)
	n.cells = make(map[*ssa.Alloc]Val, len(s.cells))
	for k, v := range s.cells {
		n.cells[k] = v
	}
	n.heap = make(map[string]*Term, len(s.heap))
	for k, v := range s.heap {
		n.heap[k] = v
	}
	n.defers = make(map[int][]deferred, len(s.defers))
	for k, v := range s.defers {
		n.defers[k] = append([]deferred(nil), v...)
	}
	if len(s.held) > 0 {
		n.held = make(map[string]*Term, len(s.held))
		for k, v := range s.held {
			n.held[k] = v
		}
	}
	if len(s.fwd) > 0 {
		n.fwd = make(map[string]fwdEntry, len(s.fwd))
		for k, v := range s.fwd {
			n.fwd[k] = v
		}
	}
	return n
}

// loadLocVal: like loadLoc, for places that may hold a field address (which is
// not a term): answered from the last store when it is to the same place, and
// refused otherwise - such an address is never read back as an ordinary pointer.
func (u *Unit) loadLocVal(st *State, mapName string, elem Sort, p *Term) (Val, bool) {
	if e, ok := st.fwd[mapName]; ok {
		if st.heap[mapName] == e.heap && e.ptr == p.S {
			return e.val, true
		}
	}
	if u.addrMaps[mapName] {
		unsupp("load from %s: it holds the address of a struct field and the store cannot be matched to this load", mapName)
	}
	return nil, false
}

// ---------------------------------------------------------------------------
// sorts of Go types

type unsupported struct{ msg string }

func (u unsupported) Error() string { return u.msg }

func unsupp(f string, a ...any) { panic(unsupported{fmt.Sprintf(f, a...)}) }

func typeKey(t types.Type) string {
	return types.TypeString(t, nil)
}

func namedKey(t types.Type) string {
	if n, ok := t.(*types.Named); ok {
		if n.Origin() != nil && n.TypeArgs().Len() > 0 {
			n = n.Origin()
		}
		obj := n.Obj()
		if obj.Pkg() != nil {
			return obj.Pkg().Path() + "." + obj.Name()
		}
		return obj.Name()
	}
	if a, ok := t.(*types.Alias); ok {
		return namedKey(types.Unalias(a))
	}
	return typeKey(t)
}

func (u *Unit) isOpaque(t types.Type) bool {
	t = types.Unalias(t)
	if n, ok := t.(*types.Named); ok {
		if u.prog.specs.Opaque[namedKey(n)] {
			return true
		}
	}
	return false
}

// structOf returns the struct type if t is a (non-opaque) struct.
func (u *Unit) structOf(t types.Type) (*types.Struct, bool) {
	if u.isOpaque(t) {
		return nil, false
	}
	s, ok := t.Underlying().(*types.Struct)
	return s, ok
}

func (u *Unit) intBV() bool { return u.bvMode }

// sortOf maps a Go type to the sort of its scalar representation; ok=false
// means the type is represented structurally (struct record / tuple).
func (u *Unit) sortOf(t types.Type) (Sort, bool) {
	t = types.Unalias(t)
	if u.isOpaque(t) {
		return u.ctx.DeclareSort("T_" + namedKey(t)), true
	}
	switch tt := t.Underlying().(type) {
	case *types.Basic:
		k := tt.Kind()
		switch {
		case tt.Info()&types.IsBoolean != 0:
			return SBool, true
		case tt.Info()&types.IsInteger != 0:
			if u.bvMode && tt.Info()&types.IsUnsigned != 0 {
				switch k {
				case types.Uint8:
					return SBV8, true
				case types.Uint32:
					return SBV32, true
				case types.Uint64, types.Uint, types.Uintptr:
					return SBV64, true
				}
			}
			return SInt, true
		case tt.Info()&types.IsFloat != 0:
			return SReal, true
		case tt.Info()&types.IsString != 0:
			if u.smtStrings {
				return SString, true
			}
			return SStr, true
		case k == types.UnsafePointer:
			return SPtr, true
		case k == types.UntypedNil:
			return SPtr, true
		}
	case *types.Pointer:
		return SPtr, true
	case *types.Slice:
		return SSlice, true
	case *types.Map, *types.Chan:
		return SRef, true
	case *types.Interface:
		if _, isTP := t.(*types.TypeParam); isTP {
			return u.ctx.DeclareSort("TP_" + t.String()), true
		}
		return SIface, true
	case *types.Signature:
		return SFn, true
	case *types.Struct:
		return "", false
	case *types.Tuple:
		return "", false
	case *types.Array:
		return u.ctx.DeclareSort("T_" + typeKey(t)), true
	}
	if _, isTP := t.(*types.TypeParam); isTP {
		return u.ctx.DeclareSort("TP_" + t.String()), true
	}
	return u.ctx.DeclareSort("T_" + typeKey(t)), true
}

func intRange(t types.Type) (lo, hi *big.Int, ok bool) {
	b, isB := types.Unalias(t).Underlying().(*types.Basic)
	if !isB || b.Info()&types.IsInteger == 0 {
		return nil, nil, false
	}
	var bits uint
	switch b.Kind() {
	case types.Int8, types.Uint8:
		bits = 8
	case types.Int16, types.Uint16:
		bits = 16
	case types.Int32, types.Uint32:
		bits = 32
	default:
		bits = 64
	}
	one := big.NewInt(1)
	if b.Info()&types.IsUnsigned != 0 {
		return big.NewInt(0), new(big.Int).Sub(new(big.Int).Lsh(one, bits), one), true
	}
	h := new(big.Int).Lsh(one, bits-1)
	return new(big.Int).Neg(h), new(big.Int).Sub(h, one), true
}

// typeFacts returns the facts every well-typed value of type t satisfies.
func (u *Unit) typeFacts(v *Term, t types.Type) *Term {
	switch v.Sort {
	case SInt:
		if lo, hi, ok := intRange(t); ok {
			return And(Le(BigLit(lo), v), Le(v, BigLit(hi)))
		}
	case SSlice:
		// lengths are Go ints: bounded, so index arithmetic on them stays inside the int range
		return And(Ge(slen(v), IntLit(0)), Ge(soff(v), IntLit(0)), Ge(scap(v), slen(v)), Le(Add(soff(v), scap(v)), IntLit(9223372036854775807)))
	case SPtr:
		return Ge(pidx(v), IntLit(0))
	case SStr:
		return Ge(App(SInt, "strlen", v), IntLit(0))
	case SReal:
		return True
	}
	return True
}

// ---------------------------------------------------------------------------
// heap

func (u *Unit) heapGet(st *State, name string, elem Sort) *Term {
	if t, ok := st.heap[name]; ok {
		return t
	}
	t := u.ctx.Const(fmt.Sprintf("%s@%d", name, st.epoch), HeapSort(elem))
	st.heap[name] = t
	u.mapSorts[name] = elem
	u.linkBase(st, name, t)
	if st.epoch == 0 && elem == SSlice && (strings.HasPrefix(name, "E!") || strings.HasPrefix(name, "F!")) {
		// well-formed entry heap: a slice stored in a slice of slices at unit entry
		// refers to an array that existed then (what a load states for one element,
		// stated for all so that quantified contracts over s[i][j] can use it)
		key := "entryborn!" + name
		if !u.ctx.declared[key] {
			u.ctx.declared[key] = true
			r := &Term{"r!q", SRef}
			i := &Term{"i!q", SInt}
			el := Select(Select(t, r), i)
			u.ctx.Axiom(Forall([]Binder{{"r!q", SRef}, {"i!q", SInt}}, Lt(App(SInt, "birth", sarr(el)), u.ctx.Const("now0", SInt)), el))
		}
	}
	return t
}

// linkBase: a base map first touched after an "allocated" havoc agrees with
// the previous epoch's base map on every object older than the unit.
func (u *Unit) linkBase(st *State, name string, t *Term) {
	cur := st.epoch
	curT := t
	for i := len(st.links) - 1; i >= 0; i-- {
		l := st.links[i]
		if l.to != cur {
			continue
		}
		key := fmt.Sprintf("link!%s!%d!%d", name, l.from, l.to)
		prev := u.ctx.Const(fmt.Sprintf("%s@%d", name, l.from), curT.Sort)
		if !u.ctx.declared[key] {
			u.ctx.declared[key] = true
			r := &Term{"r!q", SRef}
			u.ctx.Axiom(Forall([]Binder{{"r!q", SRef}}, Implies(Lt(App(SInt, "birth", r), l.since), Eq(Select(curT, r), Select(prev, r))), Select(curT, r)))
		}
		cur, curT = l.from, prev
	}
}

func (u *Unit) heapSet(st *State, name string, t *Term) {
	st.heap[name] = u.ctx.Define(name, t)
}

func (u *Unit) havocAll(st *State, why string) {
	type saved struct {
		o *localObj
		v Val
	}
	var keep []saved
	for _, o := range st.locals {
		func() {
			defer func() {
				if r := recover(); r != nil {
					if _, ok := r.(unsupported); !ok {
						panic(r)
					}
				}
			}()
			keep = append(keep, saved{o, u.loadVal(st, o.t, o.ptr)})
		}()
	}
	u.ctx.n++
	st.epoch = u.ctx.n
	st.heap = map[string]*Term{}
	st.links = nil
	for _, k := range keep {
		u.storeVal(st, k.o.t, k.o.ptr, k.v)
	}
	u.noteHavoc(why)
}

// escape: the value v leaves the activation (call argument, closure binding,
// stored into memory, boxed): objects it points to may now be changed by others.
func (u *Unit) escape(st *State, v Val) {
	switch x := v.(type) {
	case *Term:
		if x.Sort != SPtr && x.Sort != SSlice {
			return
		}
		ref := ""
		if x.Sort == SPtr {
			ref = parr(x).S
		} else {
			ref = sarr(x).S
		}
		out := st.locals[:0:0]
		for _, o := range st.locals {
			if parr(o.ptr).S != ref {
				out = append(out, o)
			}
		}
		st.locals = out
	case *StructVal:
		for _, f := range x.Fields {
			u.escape(st, f)
		}
	case *TupleVal:
		for _, f := range x.Elems {
			u.escape(st, f)
		}
	case *AddrVal:
		u.escape(st, x.Ptr)
	case *ClosureVal:
		for _, b := range x.Bindings {
			u.escape(st, b)
		}
	case *BoundVal:
		u.escape(st, x.Recv)
	}
}

// splitApp splits "(op a b ...)" into its top-level arguments; ok=false if t is not such an application.
func splitApp(t *Term, op string) ([]string, bool) {
	s := t.S
	if !strings.HasPrefix(s, "("+op+" ") || !strings.HasSuffix(s, ")") {
		return nil, false
	}
	body := s[len(op)+2 : len(s)-1]
	var out []string
	depth, start := 0, 0
	for i := 0; i < len(body); i++ {
		switch body[i] {
		case '(':
			depth++
		case ')':
			depth--
			if depth < 0 {
				return nil, false
			}
		case ' ':
			if depth == 0 {
				if i > start {
					out = append(out, body[start:i])
				}
				start = i + 1
			}
		}
	}
	if depth != 0 {
		return nil, false
	}
	if start < len(body) {
		out = append(out, body[start:])
	}
	return out, true
}

func parr(p *Term) *Term {
	if a, ok := splitApp(p, "mkptr"); ok && len(a) == 2 {
		return &Term{a[0], SRef}
	}
	return App(SRef, "parr", p)
}
func pidx(p *Term) *Term {
	if a, ok := splitApp(p, "mkptr"); ok && len(a) == 2 {
		return &Term{a[1], SInt}
	}
	return App(SInt, "pidx", p)
}
func mkptr(a, i *Term) *Term {
	return App(SPtr, "mkptr", a, i)
}
func sliceField(s *Term, k int, name string, sort Sort) *Term {
	if a, ok := splitApp(s, "mkslice"); ok && len(a) == 4 {
		return &Term{a[k], sort}
	}
	return App(sort, name, s)
}
func slen(s *Term) *Term { return sliceField(s, 2, "slen", SInt) }
func soff(s *Term) *Term { return sliceField(s, 1, "soff", SInt) }
func sarr(s *Term) *Term { return sliceField(s, 0, "sarr", SRef) }
func scap(s *Term) *Term { return sliceField(s, 3, "scap", SInt) }
func mkslice(a, o, l, c *Term) *Term {
	return App(SSlice, "mkslice", a, o, l, c)
}

func (u *Unit) loadLoc(st *State, mapName string, elem Sort, p *Term) *Term {
	m := u.heapGet(st, mapName, elem)
	return Select(Select(m, parr(p)), pidx(p))
}

func (u *Unit) storeLoc(st *State, mapName string, elem Sort, p *Term, v *Term) {
	m := u.heapGet(st, mapName, elem)
	if v.Sort != elem {
		if elem == SReal && v.Sort == SInt {
			v = ToReal(v)
		} else {
			unsupp("store of %s into map %s of %s", v.Sort, mapName, elem)
		}
	}
	u.heapSet(st, mapName, Store(m, parr(p), Store(Select(m, parr(p)), pidx(p), v)))
}

func fieldMapName(structT types.Type, field string) string {
	// fields of a generic struct whose type depends on a type parameter get one
	// map per instance (PooledColumn[ColUInt8].Data and PooledColumn[*ColStr].Data
	// have different sorts); the other fields share the map of the generic type
	if n, ok := types.Unalias(structT).(*types.Named); ok && n.TypeArgs().Len() > 0 && n.Origin() != nil {
		if os, ok := n.Origin().Underlying().(*types.Struct); ok {
			for i := 0; i < os.NumFields(); i++ {
				if os.Field(i).Name() == field && mentionsTypeParam(os.Field(i).Type(), 0) {
					var args []string
					for j := 0; j < n.TypeArgs().Len(); j++ {
						args = append(args, typeKey(n.TypeArgs().At(j)))
					}
					return "F!" + namedKey(structT) + "[" + strings.Join(args, ",") + "]." + field
				}
			}
		}
	}
	return "F!" + namedKey(structT) + "." + field
}

func mentionsTypeParam(t types.Type, depth int) bool {
	if depth > 6 {
		return false
	}
	switch tt := types.Unalias(t).(type) {
	case *types.TypeParam:
		return true
	case *types.Pointer:
		return mentionsTypeParam(tt.Elem(), depth+1)
	case *types.Slice:
		return mentionsTypeParam(tt.Elem(), depth+1)
	case *types.Array:
		return mentionsTypeParam(tt.Elem(), depth+1)
	case *types.Map:
		return mentionsTypeParam(tt.Key(), depth+1) || mentionsTypeParam(tt.Elem(), depth+1)
	case *types.Chan:
		return mentionsTypeParam(tt.Elem(), depth+1)
	case *types.Named:
		for i := 0; i < tt.TypeArgs().Len(); i++ {
			if mentionsTypeParam(tt.TypeArgs().At(i), depth+1) {
				return true
			}
		}
	case *types.Signature:
		for i := 0; i < tt.Params().Len(); i++ {
			if mentionsTypeParam(tt.Params().At(i).Type(), depth+1) {
				return true
			}
		}
		for i := 0; i < tt.Results().Len(); i++ {
			if mentionsTypeParam(tt.Results().At(i).Type(), depth+1) {
				return true
			}
		}
	}
	return false
}
func elemMapName(s Sort) string { return "E!" + sanitize(string(s)) }

// subPtr: pointer to the nested struct value field f of the struct at p.
func (u *Unit) subPtr(structT types.Type, field string, p *Term) *Term {
	fn := "sub!" + namedKey(structT) + "." + field
	name := u.ctx.Func(fn, []Sort{SRef}, SRef)
	inv := u.ctx.Func(fn+"!inv", []Sort{SRef}, SRef)
	base := parr(p)
	key := "subax!" + name + "!" + base.S
	if !u.ctx.declared[key] {
		// ground instance of: birth(sub r) = birth r, sub injective, sub r != nil
		u.ctx.declared[key] = true
		u.ctx.Axiom(&Term{fmt.Sprintf("(and (= (birth (%s %s)) (birth %s)) (= (%s (%s %s)) %s) (not (= (%s %s) nilref)))", name, base.S, base.S, inv, name, base.S, base.S, name, base.S), SBool})
	}
	res := mkptr(App(SRef, name, base), pidx(p))
	u.subOrigins[res.S] = subOrigin{p, structT, field}
	return res
}

type subOrigin struct {
	base    *Term
	structT types.Type
	field   string
}

// loadVal loads a value of Go type t stored at pointer p (struct pointer /
// element pointer / heap cell).
func (u *Unit) smallArray(t types.Type) (*types.Array, bool) {
	if u.isOpaque(t) {
		return nil, false
	}
	at, ok := types.Unalias(t).Underlying().(*types.Array)
	if !ok || at.Len() > 16 {
		return nil, false
	}
	if _, scalar := u.sortOf(at.Elem()); !scalar {
		return nil, false
	}
	if _, isArr := types.Unalias(at.Elem()).Underlying().(*types.Array); isArr {
		return nil, false
	}
	return at, true
}

func (u *Unit) loadVal(st *State, t types.Type, p *Term) Val {
	if at, ok := u.smallArray(t); ok {
		// a small array value: its elements, read one by one
		av := &StructVal{T: t}
		for i := int64(0); i < at.Len(); i++ {
			av.Fields = append(av.Fields, u.loadVal(st, at.Elem(), mkptr(parr(p), Eidx(pidx(p), IntLit(i)))))
		}
		return av
	}
	if s, ok := u.structOf(t); ok {
		sv := &StructVal{T: t}
		for i := 0; i < s.NumFields(); i++ {
			sv.Fields = append(sv.Fields, u.loadField(st, t, s, i, p))
		}
		return sv
	}
	sort, _ := u.sortOf(t)
	v := u.ctx.Define("ld", u.loadLoc(st, elemMapName(sort), sort, p))
	u.assume(st, u.typeFacts(v, t))
	u.assumeBorn(st, v)
	return v
}

func (u *Unit) loadField(st *State, structT types.Type, s *types.Struct, i int, p *Term) Val {
	f := s.Field(i)
	if _, nested := u.structOf(f.Type()); nested {
		return u.loadVal(st, f.Type(), u.subPtr(structT, f.Name(), p))
	}
	sort, _ := u.sortOf(f.Type())
	v := u.ctx.Define("ld", u.loadLoc(st, fieldMapName(structT, f.Name()), sort, p))
	u.assume(st, u.typeFacts(v, f.Type()))
	u.assumeBorn(st, v)
	return v
}

// assumeBorn: every reference read from memory or a parameter was allocated
// before now.
func (u *Unit) assumeBorn(st *State, v *Term) {
	switch v.Sort {
	case SPtr:
		u.assume(st, Lt(App(SInt, "birth", parr(v)), st.now))
	case SSlice:
		u.assume(st, Lt(App(SInt, "birth", sarr(v)), st.now))
	case SRef:
		u.assume(st, Lt(App(SInt, "birth", v), st.now))
	}
}

func (u *Unit) storeVal(st *State, t types.Type, p *Term, v Val) {
	if at, ok := u.smallArray(t); ok {
		if av, isA := v.(*StructVal); isA && int64(len(av.Fields)) == at.Len() {
			for i := int64(0); i < at.Len(); i++ {
				u.storeVal(st, at.Elem(), mkptr(parr(p), Eidx(pidx(p), IntLit(i))), av.Fields[i])
			}
			return
		}
	}
	if s, ok := u.structOf(t); ok {
		sv, isS := v.(*StructVal)
		if !isS {
			unsupp("store of non-record into struct %s", t)
		}
		for i := 0; i < s.NumFields(); i++ {
			u.storeField(st, t, s, i, p, sv.Fields[i])
		}
		return
	}
	sort, _ := u.sortOf(t)
	tv, ok := v.(*Term)
	if !ok {
		if sort == SFn {
			tv = u.reifyFn(v)
		} else {
			unsupp("store of %T into scalar cell of %s", v, t)
		}
	}
	u.storeLoc(st, elemMapName(sort), sort, p, tv)
}

// reifyFn: a function value stored into memory becomes an opaque non-nil Fn constant.
func (u *Unit) reifyFn(v Val) *Term {
	name := "fnval"
	switch f := v.(type) {
	case *ClosureVal:
		name = "fnval!" + funcKey(f.Fn)
	case *FnVal:
		name = "fnval!" + funcKey(f.Fn)
	case *BoundVal:
		name = "fnval!bound!" + funcKey(f.Fn)
	default:
		unsupp("store of %T as a function value", v)
	}
	t := u.ctx.Const(name, SFn)
	if !u.ctx.declared["fnval!nn!"+t.S] {
		u.ctx.declared["fnval!nn!"+t.S] = true
		u.ctx.Axiom(Not(Eq(t, NilFn)))
		// the static function behind the value (for fncalls() in contracts)
		var fn *ssa.Function
		switch f := v.(type) {
		case *ClosureVal:
			fn = f.Fn
		case *FnVal:
			fn = f.Fn
		}
		if fn != nil {
			fs := u.ctx.Func("fnstatic", []Sort{SFn}, SInt)
			id := u.prog.fnID(fn)
			if strings.HasPrefix(fn.Synthetic, "bound method wrapper for ") {
				// x.M as a value: identified by the method it is bound to
				if m, ok := fn.Object().(*types.Func); ok {
					if target := u.prog.ssaProg.FuncValue(m); target != nil {
						id = u.prog.fnIDKey(funcKey(target) + "$bound")
					}
				}
			}
			u.ctx.Axiom(Eq(App(SInt, fs, t), IntLit(int64(id))))
		}
	}
	return t
}

func (u *Unit) storeField(st *State, structT types.Type, s *types.Struct, i int, p *Term, v Val) {
	f := s.Field(i)
	if _, nested := u.structOf(f.Type()); nested {
		u.storeVal(st, f.Type(), u.subPtr(structT, f.Name(), p), v)
		return
	}
	sort, _ := u.sortOf(f.Type())
	tv, ok := v.(*Term)
	if !ok {
		if sort == SFn {
			tv = u.reifyFn(v)
		} else {
			unsupp("store of %T into field %s", v, f.Name())
		}
	}
	u.storeLoc(st, fieldMapName(structT, f.Name()), sort, p, tv)
}

// zeroVal of a Go type.
func (u *Unit) zeroVal(t types.Type) Val {
	if s, ok := u.structOf(t); ok {
		sv := &StructVal{T: t}
		for i := 0; i < s.NumFields(); i++ {
			sv.Fields = append(sv.Fields, u.zeroVal(s.Field(i).Type()))
		}
		return sv
	}
	if tup, ok := t.(*types.Tuple); ok {
		tv := &TupleVal{}
		for i := 0; i < tup.Len(); i++ {
			tv.Elems = append(tv.Elems, u.zeroVal(tup.At(i).Type()))
		}
		return tv
	}
	sort, _ := u.sortOf(t)
	return u.zeroOfSort(sort)
}

func (u *Unit) zeroOfSort(sort Sort) *Term {
	switch sort {
	case SInt:
		return IntLit(0)
	case SReal:
		return &Term{"0.0", SReal}
	case SBool:
		return False
	case SStr:
		return u.ctx.StrLit("")
	case SString:
		return &Term{`""`, SString}
	case SPtr:
		return NilPtr
	case SSlice:
		return NilSlice
	case SIface:
		return NilIface
	case SRef:
		return NilRef
	case SFn:
		return NilFn
	}
	if sort.IsBV() {
		return BVLit(big.NewInt(0), sort.BVWidth())
	}
	return u.ctx.Const("zero!"+string(sort), sort)
}

// freshVal: unconstrained value of type t (with type facts assumed).
func (u *Unit) freshVal(st *State, t types.Type, name string) Val {
	if s, ok := u.structOf(t); ok {
		sv := &StructVal{T: t}
		for i := 0; i < s.NumFields(); i++ {
			sv.Fields = append(sv.Fields, u.freshVal(st, s.Field(i).Type(), name+"."+s.Field(i).Name()))
		}
		return sv
	}
	if at, ok := u.smallArray(t); ok && at.Len() >= 1 && !strings.Contains(name, ".") {
		// a small array value that is not a field of a record (parameter, call result):
		// its elements, one by one
		av := &StructVal{T: t}
		for i := int64(0); i < at.Len(); i++ {
			av.Fields = append(av.Fields, u.freshVal(st, at.Elem(), fmt.Sprintf("%s.%d", name, i)))
		}
		return av
	}
	if tup, ok := t.(*types.Tuple); ok {
		tv := &TupleVal{}
		for i := 0; i < tup.Len(); i++ {
			tv.Elems = append(tv.Elems, u.freshVal(st, tup.At(i).Type(), fmt.Sprintf("%s.%d", name, i)))
		}
		return tv
	}
	sort, _ := u.sortOf(t)
	v := u.ctx.FreshConst(name, sort)
	if st != nil {
		u.assume(st, u.typeFacts(v, t))
		u.assumeBorn(st, v)
	}
	return v
}

// newRef allocates a fresh reference.
func (u *Unit) newRef(st *State, what string) *Term {
	r := u.ctx.FreshConst("new_"+what, SRef)
	u.assume(st, And(Eq(App(SInt, "birth", r), st.now), Not(Eq(r, NilRef))))
	st.now = u.ctx.Define("now", Add(st.now, IntLit(1)))
	return r
}

func (u *Unit) assume(st *State, t *Term) {
	if t == nil || t.S == "true" {
		return
	}
	st.pc = And(st.pc, t)
	if len(st.pc.S) > 200 {
		st.pc = u.ctx.Define("pc", st.pc)
	}
}

func valString(v Val) string {
	switch v := v.(type) {
	case *Term:
		return v.S
	case *StructVal:
		var fs []string
		for _, f := range v.Fields {
			fs = append(fs, valString(f))
		}
		return "{" + strings.Join(fs, ", ") + "}"
	case *TupleVal:
		var fs []string
		for _, f := range v.Elems {
			fs = append(fs, valString(f))
		}
		return "<" + strings.Join(fs, ", ") + ">"
	case nil:
		return "<nil>"
	}
	return fmt.Sprintf("%T", v)
}

// mergeVals builds ite(c_0, v_0, ite(c_1, v_1, ... v_n)).
func (u *Unit) mergeVals(conds []*Term, vals []Val) Val {
	same := true
	for _, v := range vals[1:] {
		if !sameVal(v, vals[0]) {
			same = false
			break
		}
	}
	if same {
		return vals[0]
	}
	// different functions meeting at a join: the value becomes a function term
	// (identified by fnstatic), so that a later call can be dispatched
	hasFn := false
	for _, v := range vals {
		switch f := v.(type) {
		case *FnVal:
			hasFn = true
		case *ClosureVal:
			if len(f.Bindings) == 0 {
				hasFn = true
			}
		}
	}
	if hasFn {
		nv := make([]Val, len(vals))
		for i, v := range vals {
			switch f := v.(type) {
			case *FnVal:
				nv[i] = u.reifyFn(f)
			case *ClosureVal:
				if len(f.Bindings) != 0 {
					unsupp("merge of a capturing closure with another function value")
				}
				nv[i] = u.reifyFn(f)
			default:
				nv[i] = v
			}
		}
		vals = nv
	}
	switch v0 := vals[0].(type) {
	case *Term:
		acc, ok := vals[len(vals)-1].(*Term)
		if !ok {
			unsupp("merge of %T with term", vals[len(vals)-1])
		}
		for i := len(vals) - 2; i >= 0; i-- {
			ti, ok := vals[i].(*Term)
			if !ok {
				unsupp("merge of %T with term", vals[i])
			}
			acc = Ite(conds[i], ti, acc)
		}
		if acc.Sort == SBool || strings.HasPrefix(string(acc.Sort), "(Array") {
			return u.ctx.Define("phi", acc)
		}
		return u.ctx.Name("phi", acc)
	case *StructVal:
		out := &StructVal{T: v0.T}
		for f := range v0.Fields {
			fv := make([]Val, len(vals))
			for i, v := range vals {
				sv, ok := v.(*StructVal)
				if !ok {
					unsupp("merge of struct with %T", v)
				}
				fv[i] = sv.Fields[f]
			}
			out.Fields = append(out.Fields, u.mergeVals(conds, fv))
		}
		return out
	case *TupleVal:
		out := &TupleVal{}
		for f := range v0.Elems {
			fv := make([]Val, len(vals))
			for i, v := range vals {
				fv[i] = v.(*TupleVal).Elems[f]
			}
			out.Elems = append(out.Elems, u.mergeVals(conds, fv))
		}
		return out
	case nil:
		return nil
	}
	unsupp("merge of differing %T values", vals[0])
	return nil
}

func sameVal(a, b Val) bool {
	switch a := a.(type) {
	case *Term:
		bt, ok := b.(*Term)
		return ok && a.S == bt.S
	case *StructVal:
		bs, ok := b.(*StructVal)
		if !ok || len(a.Fields) != len(bs.Fields) {
			return false
		}
		for i := range a.Fields {
			if !sameVal(a.Fields[i], bs.Fields[i]) {
				return false
			}
		}
		return true
	case *TupleVal:
		bs, ok := b.(*TupleVal)
		if !ok || len(a.Elems) != len(bs.Elems) {
			return false
		}
		for i := range a.Elems {
			if !sameVal(a.Elems[i], bs.Elems[i]) {
				return false
			}
		}
		return true
	case *AddrVal:
		bb, ok := b.(*AddrVal)
		return ok && a.Map == bb.Map && a.Ptr.S == bb.Ptr.S
	case *CellAddr:
		bb, ok := b.(*CellAddr)
		return ok && a.Alloc == bb.Alloc
	case *CellFieldAddr:
		bb, ok := b.(*CellFieldAddr)
		return ok && a.Alloc == bb.Alloc && a.Field == bb.Field
	case *ClosureVal:
		bb, ok := b.(*ClosureVal)
		if !ok || a.Fn != bb.Fn || len(a.Bindings) != len(bb.Bindings) {
			return false
		}
		for i := range a.Bindings {
			if !sameVal(a.Bindings[i], bb.Bindings[i]) {
				return false
			}
		}
		return true
	case *FnVal:
		bb, ok := b.(*FnVal)
		return ok && a.Fn == bb.Fn
	case *BoundVal:
		bb, ok := b.(*BoundVal)
		return ok && a.Fn == bb.Fn && sameVal(a.Recv, bb.Recv)
	case *BuiltinVal:
		bb, ok := b.(*BuiltinVal)
		return ok && a.Name == bb.Name
	case nil:
		return b == nil
	}
	return false
}
