package main

import (
	"fmt"
	"go/ast"
	"go/token"
	"go/types"
	"reflect"
	"sort"
	"strings"

	"golang.org/x/tools/go/ssa"
)

// Sweep: a zero-annotation structural check over every function of the listed
// packages (declared in a contract file as
//
//	//@ sweep constfmt [C10] <package path> <package path> ...
//
// ). constfmt: the format string of every call to fmt.Sprintf / fmt.Fprintf /
// fmt.Appendf - and of every function of the swept packages that forwards
// one of its own parameters as the format (a wrapper) - is a constant of the program.
// One obligation per call site, named by function and ordinal; no symbolic execution.
type Sweep struct {
	Kind    string
	Props   []string
	Pkgs    []string // constfmt: package paths; embeds: Var=file pairs
	PkgPath string   // package of the contract file that declares the sweep
	File    string
	Line    int
}

// formatArg: index of the format operand of the known formatting functions.
// (fmt.Errorf / fmt.Printf are left out on purpose: their text goes to an error
// message or the log, not into a statement - a computed format there garbles a
// message, which no listed property forbids.)
var baseFormatFns = map[string]int{
	"fmt.Sprintf": 0, "fmt.Fprintf": 1, "fmt.Appendf": 1,
}

func (p *Program) runSweep(sw *Sweep) *Unit {
	u := p.NewUnit(nil, nil)
	u.name = "sweep " + sw.Kind
	if sw.Kind == "embeds" {
		// sweep embeds [Cxx] Var=file ...: the //go:embed directive of package variable
		// Var (in the package of the contract file) names exactly that file - the link
		// between a script variable and the statements it carries is made by the
		// compiler, outside SSA, so it is checked on the declaration.
		pk := p.pkgs[sw.PkgPath]
		if pk == nil {
			u.errs = append(u.errs, fmt.Sprintf("%s:%d: sweep embeds: package %s not loaded", sw.File, sw.Line, sw.PkgPath))
			return u
		}
		found := map[string]string{}
		pos := map[string]token.Pos{}
		for _, f := range pk.Syntax {
			for _, d := range f.Decls {
				gd, ok := d.(*ast.GenDecl)
				if !ok || gd.Tok != token.VAR {
					continue
				}
				for _, sp := range gd.Specs {
					vs, ok := sp.(*ast.ValueSpec)
					if !ok {
						continue
					}
					doc := vs.Doc
					if doc == nil {
						doc = gd.Doc
					}
					if doc == nil {
						continue
					}
					for _, c := range doc.List {
						if strings.HasPrefix(c.Text, "//go:embed ") {
							for _, n := range vs.Names {
								found[n.Name] = strings.TrimSpace(strings.TrimPrefix(c.Text, "//go:embed "))
								pos[n.Name] = n.Pos()
							}
						}
					}
				}
			}
		}
		for _, pair := range sw.Pkgs {
			v, file, ok := strings.Cut(pair, "=")
			if !ok {
				u.errs = append(u.errs, fmt.Sprintf("%s:%d: sweep embeds: Var=file expected, got %q", sw.File, sw.Line, pair))
				continue
			}
			o := &Obligation{Name: "embed/" + v, Kind: "structure", Unit: u.name, Pos: u.posString(pos[v]), Desc: "package variable " + v + " embeds the file " + file + " (//go:embed)", Hyp: True, Goal: True, ctx: u.ctx, unit: u, Status: "discharged", Backend: "syntactic"}
			if found[v] != file {
				o.Desc += ": it embeds " + fmt.Sprintf("%q", found[v])
				o.Goal, o.Status, o.Backend, o.Mark = False, "", "", u.ctx.Mark()
			}
			u.obls = append(u.obls, o)
		}
		return u
	}
	if sw.Kind == "jsontags" {
		// sweep jsontags [Cxx] Type.Field=tag ...: the json struct tag of that field (of a
		// type of the contract file's package) is exactly that text - the documented key,
		// without options such as omitempty that make a row lose a field for some values.
		// encoding/json reads the tag by reflection, outside SSA: checked on the declaration.
		pk := p.typesPkgs[sw.PkgPath]
		if pk == nil {
			u.errs = append(u.errs, fmt.Sprintf("%s:%d: sweep jsontags: package %s not loaded", sw.File, sw.Line, sw.PkgPath))
			return u
		}
		for _, pair := range sw.Pkgs {
			lhs, want, ok := strings.Cut(pair, "=")
			tn, fn, ok2 := strings.Cut(lhs, ".")
			if !ok || !ok2 {
				u.errs = append(u.errs, fmt.Sprintf("%s:%d: sweep jsontags: Type.Field=tag expected, got %q", sw.File, sw.Line, pair))
				continue
			}
			got, found := "", false
			var pos token.Pos
			if obj := pk.Scope().Lookup(tn); obj != nil {
				if st, isS := obj.Type().Underlying().(*types.Struct); isS {
					for i := 0; i < st.NumFields(); i++ {
						if st.Field(i).Name() == fn {
							got, found = reflect.StructTag(st.Tag(i)).Get("json"), true
							pos = st.Field(i).Pos()
						}
					}
				}
			}
			o := &Obligation{Name: "jsontag/" + lhs, Kind: "structure", Unit: u.name, Pos: u.posString(pos), Desc: "field " + lhs + " is rendered under the JSON key `" + want + "` for every value (json struct tag)", Hyp: True, Goal: True, ctx: u.ctx, unit: u, Status: "discharged", Backend: "syntactic"}
			if !found || got != want {
				o.Desc += fmt.Sprintf(": its tag is %q", got)
				o.Goal, o.Status, o.Backend, o.Mark = False, "", "", u.ctx.Mark()
			}
			u.obls = append(u.obls, o)
		}
		return u
	}
	if sw.Kind != "constfmt" {
		u.errs = append(u.errs, fmt.Sprintf("%s:%d: unknown sweep kind %q", sw.File, sw.Line, sw.Kind))
		return u
	}
	inSweep := map[string]bool{}
	for _, pk := range sw.Pkgs {
		inSweep[pk] = true
	}
	var fns []*ssa.Function
	for key, fn := range p.funcs {
		_ = key
		if fn.Pkg == nil || !inSweep[fn.Pkg.Pkg.Path()] || fn.Blocks == nil {
			continue
		}
		fns = append(fns, fn)
	}
	sort.Slice(fns, func(i, j int) bool { return funcKey(fns[i]) < funcKey(fns[j]) })
	// fixed point: functions that forward a parameter as a format are format functions
	formatFns := map[string]int{}
	for k, v := range baseFormatFns {
		formatFns[k] = v
	}
	type site struct {
		fn     *ssa.Function
		callee string
		pos    token.Pos
		ok     bool
		why    string
	}
	var sites []site
	for changed := true; changed; {
		changed = false
		sites = sites[:0]
		for _, fn := range fns {
			for _, b := range fn.Blocks {
				for _, in := range b.Instrs {
					var cc *ssa.CallCommon
					switch x := in.(type) {
					case *ssa.Call:
						cc = &x.Call
					case *ssa.Go:
						cc = &x.Call
					case *ssa.Defer:
						cc = &x.Call
					}
					if cc == nil {
						continue
					}
					callee := cc.StaticCallee()
					if callee == nil {
						continue
					}
					idx, isFmt := formatFns[funcKey(callee)]
					if !isFmt || idx >= len(cc.Args) {
						continue
					}
					arg := cc.Args[idx]
					// naive-form SSA keeps locals and parameters in cells: a load of a cell
					// that is stored exactly once stands for the stored value
					if ld, isLoad := arg.(*ssa.UnOp); isLoad && ld.Op == token.MUL {
						if cell, isCell := ld.X.(*ssa.Alloc); isCell {
							var stored []ssa.Value
							for _, bb := range fn.Blocks {
								for _, i2 := range bb.Instrs {
									if st, isSt := i2.(*ssa.Store); isSt && st.Addr == cell {
										stored = append(stored, st.Val)
									}
								}
							}
							if len(stored) == 1 {
								arg = stored[0]
							}
						}
					}
					s := site{fn: fn, callee: funcKey(callee), pos: in.Pos()}
					switch a := arg.(type) {
					case *ssa.Const:
						s.ok = true
					case *ssa.Parameter:
						// a wrapper: its own callers are checked instead
						s.ok = true
						pi := -1
						for k, prm := range fn.Params {
							if prm == a {
								pi = k
							}
						}
						if pi >= 0 {
							if _, known := formatFns[funcKey(fn)]; !known {
								formatFns[funcKey(fn)] = pi
								changed = true
							}
						}
					default:
						s.why = fmt.Sprintf("%T", arg)
					}
					sites = append(sites, s)
				}
			}
		}
	}
	count := map[string]int{}
	for _, s := range sites {
		fk := shortName(funcKey(s.fn))
		count[fk]++
		name := fmt.Sprintf("format/constant@%s#%d", fk, count[fk])
		desc := "the format string of the call to " + s.callee + " in " + fk + " is a constant of the program (request text is only ever an operand)"
		o := &Obligation{Name: name, Kind: "format", Unit: u.name, Pos: u.posString(s.pos), Desc: desc, Hyp: True, Goal: True, ctx: u.ctx, unit: u, Status: "discharged", Backend: "syntactic"}
		if !s.ok {
			o.Goal = False
			o.Status = ""
			o.Backend = ""
			o.Mark = u.ctx.Mark()
		}
		u.obls = append(u.obls, o)
	}
	if len(sites) == 0 {
		u.errs = append(u.errs, fmt.Sprintf("%s:%d: sweep %s found no call site in %s (vacuous)", sw.File, sw.Line, sw.Kind, strings.Join(sw.Pkgs, " ")))
	}
	return u
}
