package main

// Replay: the solver's counterexample is turned into an in-package Go test,
// injected with `go test -overlay`, and run against the real code.
//
// A contract may carry a template:
//
//	//@ replay:
//	//@   let n = len(s.samples)
//	//@   let ts[i < n] = s.samples[i].TimestampMs
//	//@   let t = t
//	//@   import "fmt"
//	//@   go: it := &seriesIt{samples: make([]Sample, $n)}
//	//@   go: ...  confirm("why") when the real code contradicts the contract
//	//@ end
//
// `let` expressions are contract expressions evaluated in the entry state of
// the unit and read from the model; `$name` in go: lines is replaced by the
// value (a comma-separated list for indexed lets).

import (
	"bytes"
	"context"
	"encoding/json"
	"fmt"
	"math/big"
	"os"
	"os/exec"
	"path/filepath"
	"regexp"
	"strings"
	"time"
)

type replayLet struct {
	name   string
	idxVar string
	bound  string
	expr   Expr
	src    string
}

const replayMaxLen = 64

func replayObligation(o *Options, res *runResult, ob *Obligation, replayDir, smtDir string) (string, bool) {
	return replayObligationMode(o, res, ob, replayDir, smtDir, true, "")
}

// replayObligationMode: with haveModel=false (the solvers gave no counterexample)
// only a replay template that needs no model values - a fixed probe of the real
// function - can be run.
func replayObligationMode(o *Options, res *runResult, ob *Obligation, replayDir, smtDir string, haveModel bool, preface string) (string, bool) {
	var log strings.Builder
	log.WriteString(preface)
	fmt.Fprintf(&log, "%s\nat %s\nsolver: %s\n\n", ob.Desc, ob.Pos, ob.Backend)
	confirmed := false
	func() {
		defer func() {
			if r := recover(); r != nil {
				fmt.Fprintf(&log, "replay could not be constructed: %v\n", r)
			}
		}()
		if o.NoReplay {
			log.WriteString("replay skipped (-no-replay)\n")
			return
		}
		confirmed = doReplay(o, ob, smtDir, &log, haveModel)
	}()
	if !confirmed {
		fmt.Fprintf(&log, "\nsolver output (first lines):\n%s\n", trunc(ob.Output, 4000))
	}
	path := writeReplayNote(replayDir, ob.Unit, ob.Name, log.String())
	return path, confirmed
}

func doReplay(o *Options, ob *Obligation, smtDir string, log *strings.Builder, haveModel bool) bool {
	u := ob.unit
	if u == nil || u.contract == nil || len(u.contract.Replay) == 0 || u.fn == nil {
		log.WriteString("no replay template for this function: no-failing-input-found\n")
		return false
	}
	var lets []replayLet
	var goLines, imports, topLines []string
	letRe := regexp.MustCompile(`^let\s+([A-Za-z_][A-Za-z0-9_]*)(?:\[([a-z]+)\s*<\s*([A-Za-z_][A-Za-z0-9_]*)\])?\s*=\s*(.*)$`)
	for _, l := range u.contract.Replay {
		t := strings.TrimSpace(l)
		switch {
		case strings.HasPrefix(t, "let "):
			m := letRe.FindStringSubmatch(t)
			if m == nil {
				panic("bad let line: " + t)
			}
			e, err := ParseExpr(m[4])
			if err != nil {
				panic(err)
			}
			lets = append(lets, replayLet{name: m[1], idxVar: m[2], bound: m[3], expr: e, src: m[4]})
		case strings.HasPrefix(t, "import "):
			imports = append(imports, t)
		case strings.HasPrefix(t, "top:"):
			if i := strings.Index(l, "top:"); i >= 0 {
				topLines = append(topLines, l[i+4:])
			}
		case strings.HasPrefix(t, "go:"):
			goLines = append(goLines, strings.TrimPrefix(strings.TrimPrefix(l, " "), "go:"))
			if i := strings.Index(l, "go:"); i >= 0 {
				goLines[len(goLines)-1] = l[i+3:]
			}
		case t == "":
		default:
			panic("bad replay line: " + t)
		}
	}
	if !haveModel {
		if len(lets) > 0 {
			log.WriteString("the solvers gave no model and the replay template needs model values: no-failing-input-found\n")
			return false
		}
		log.WriteString("the solvers gave no model; running the fixed probe of the replay template against the real code\n")
	}
	// evaluate the lets in the entry state
	env := u.envFor(nil, u.entry.clone(), u.entry, nil)
	env.st = u.entry.clone()
	scalarTerms := map[string]*Term{}
	scalarFacts := map[string]*Term{}
	type idxLet struct {
		let  replayLet
		term *Term
		fact *Term
		ivar string
	}
	var idxLets []idxLet
	isBound := map[string]bool{}
	for _, l := range lets {
		if l.idxVar == "" {
			r := env.eval(l.expr)
			t, ok := r.v.(*Term)
			if !ok {
				panic("let " + l.name + ": scalar expected")
			}
			scalarTerms[l.name] = t
			scalarFacts[l.name] = True
			if r.t != nil {
				scalarFacts[l.name] = u.typeFacts(t, r.t)
			}
			continue
		}
		isBound[l.bound] = true
		iv := fmt.Sprintf("rp!%s", l.idxVar)
		sub := *env
		sub.bound = map[string]envVar{l.idxVar: {&Term{iv, SInt}, nil}}
		r := sub.eval(l.expr)
		t, ok := r.v.(*Term)
		if !ok {
			panic("let " + l.name + ": scalar expected")
		}
		f := True
		if r.t != nil {
			f = u.typeFacts(t, r.t)
		}
		idxLets = append(idxLets, idxLet{l, t, f, iv})
	}
	mark := u.ctx.Mark()
	// phase 1: the bounds (with a small-model preference)
	var bnames, bterms []string
	for _, n := range sortedKeys(isBound) {
		t, ok := scalarTerms[n]
		if !ok {
			panic("bound " + n + " is not a scalar let")
		}
		bnames = append(bnames, n)
		bterms = append(bterms, t.S)
	}
	hyps := []*Term{ob.Hyp}
	for _, n := range bnames {
		hyps = append(hyps, Le(scalarTerms[n], IntLit(replayMaxLen)))
	}
	model := map[string]string{}
	counts := map[string]int{}
	if len(bnames) > 0 {
		vals, out := modelValues(u.ctx.Query(mark, hyps, ob.Goal, bterms), smtDir, "replay1_"+shortName(ob.Unit)+"_"+ob.Name)
		if vals == nil {
			fmt.Fprintf(log, "no model with every length <= %d (the solver said: %s): no-failing-input-found\n", replayMaxLen, trunc(strings.TrimSpace(out), 200))
			return false
		}
		for i, n := range bnames {
			hyps = append(hyps, Eq(scalarTerms[n], &Term{vals[i], SInt}))
			fmt.Sscanf(goLiteral(vals[i]), "%d", new(int))
			var k int
			fmt.Sscanf(goLiteral(vals[i]), "%d", &k)
			counts[n] = k
		}
	}
	// phase 2: everything, with the bounds pinned and type ranges on every value read
	var names, terms []string
	for _, n := range sortedKeys(scalarTerms) {
		names = append(names, n)
		terms = append(terms, scalarTerms[n].S)
		hyps = append(hyps, scalarFacts[n])
	}
	type slot struct {
		name string
		k    int
	}
	var slots []slot
	for _, il := range idxLets {
		n := counts[il.let.bound]
		if n < 0 {
			n = 0
		}
		for k := 0; k < n; k++ {
			terms = append(terms, strings.ReplaceAll(il.term.S, il.ivar, fmt.Sprint(k)))
			hyps = append(hyps, &Term{strings.ReplaceAll(il.fact.S, il.ivar, fmt.Sprint(k)), SBool})
			slots = append(slots, slot{il.let.name, k})
		}
	}
	var vals []string
	var out string
	if haveModel {
		vals, out = modelValues(u.ctx.Query(mark, hyps, ob.Goal, terms), smtDir, "replay2_"+shortName(ob.Unit)+"_"+ob.Name)
	} else {
		vals = []string{}
	}
	if vals == nil {
		fmt.Fprintf(log, "the solver produced no model for the replay query:\n%s\n", trunc(out, 600))
		return false
	}
	for i, n := range names {
		model[n] = goLiteral(vals[i])
	}
	lists := map[string][]string{}
	for i, sl := range slots {
		lists[sl.name] = append(lists[sl.name], goLiteral(vals[len(names)+i]))
	}
	for _, il := range idxLets {
		model[il.let.name] = strings.Join(lists[il.let.name], ", ")
	}
	if haveModel {
		fmt.Fprintf(log, "counterexample (model of the failed obligation, entry state):\n")
	}
	for _, n := range sortedKeys(model) {
		fmt.Fprintf(log, "  %s = %s\n", n, model[n])
	}
	// build the test
	body := strings.Join(goLines, "\n")
	keys := sortedKeys(model)
	// longest names first so that $ts is not clobbered by $t
	for i := 0; i < len(keys); i++ {
		for j := i + 1; j < len(keys); j++ {
			if len(keys[j]) > len(keys[i]) {
				keys[i], keys[j] = keys[j], keys[i]
			}
		}
	}
	for _, n := range keys {
		body = strings.ReplaceAll(body, "$"+n, model[n])
	}
	body = strings.ReplaceAll(body, "$OBLIGATION", fmt.Sprintf("%q", ob.Name))
	pkgName := u.fn.Pkg.Pkg.Name()
	wantPanic := strings.HasPrefix(ob.Kind, "panic/")
	src := fmt.Sprintf(`package %s

import (
	"fmt"
	"testing"
)
%s

var _ = fmt.Sprint

%s

func TestGovcReplay(t *testing.T) {
	confirmed := ""
	confirm := func(msg string) { confirmed = msg }
	_ = confirm
	var panicked any
	func() {
		defer func() { panicked = recover() }()
%s
	}()
	if panicked != nil {
		fmt.Printf("REPLAY-PANIC: %%v\n", panicked)
		if %v {
			confirmed = fmt.Sprintf("panic: %%v", panicked)
		}
	}
	if confirmed != "" {
		fmt.Printf("REPLAY-CONFIRMED: %%s\n", confirmed)
	} else {
		fmt.Println("REPLAY-NOT-REPRODUCED")
	}
}
`, pkgName, strings.Join(imports, "\n"), strings.Join(topLines, "\n"), body, wantPanic)
	pkgDir := filepath.Dir(u.prog.fset.Position(u.fn.Pos()).Filename)
	tmp, err := os.MkdirTemp("/var/tmp", "govc-replay-")
	if err != nil {
		panic(err)
	}
	defer os.RemoveAll(tmp)
	testFile := filepath.Join(tmp, "zz_govc_replay_test.go")
	os.WriteFile(testFile, []byte(src), 0o644)
	ov := map[string]any{"Replace": map[string]string{filepath.Join(pkgDir, "zz_govc_replay_test.go"): testFile}}
	ovb, _ := json.Marshal(ov)
	ovFile := filepath.Join(tmp, "overlay.json")
	os.WriteFile(ovFile, ovb, 0o644)
	ctx, cancel := context.WithTimeout(context.Background(), 240*time.Second)
	defer cancel()
	cmd := exec.CommandContext(ctx, "bash", "-c", fmt.Sprintf("ulimit -v 8000000; cd %q && go test -overlay %q -v -vet=off -count=1 -timeout 60s -run '^TestGovcReplay$' .", pkgDir, ovFile))
	cmd.Env = goEnv()
	var outb bytes.Buffer
	cmd.Stdout = &outb
	cmd.Stderr = &outb
	cmd.Run()
	outS := outb.String()
	fmt.Fprintf(log, "\nreplay test (package %s):\n%s\nreplay output:\n%s\n", pkgDir, src, trunc(outS, 3000))
	return strings.Contains(outS, "REPLAY-CONFIRMED")
}

// modelValues runs z3-new then z3 on the query and parses the get-value answer.
func modelValues(query, dir, tag string) ([]string, string) {
	file := filepath.Join(dir, sanitize(tag)+".smt2")
	os.WriteFile(file, []byte(query), 0o644)
	var last string
	for _, argv := range [][]string{{"z3-new", "-T:20", file}, {"/usr/bin/z3", "-T:20", file}, {"cvc5", "--tlimit=20000", file}} {
		ctx, cancel := context.WithTimeout(context.Background(), 25*time.Second)
		out, _ := exec.CommandContext(ctx, argv[0], argv[1:]...).CombinedOutput()
		cancel()
		s := string(out)
		last = s
		if !strings.HasPrefix(strings.TrimSpace(s), "sat") {
			continue
		}
		rest := strings.TrimSpace(strings.TrimPrefix(strings.TrimSpace(s), "sat"))
		if rest == "" {
			return []string{}, s
		}
		vals := parseGetValue(rest)
		if vals != nil {
			return vals, s
		}
	}
	return nil, last
}

// parseGetValue parses "((t1 v1) (t2 v2) ...)" into the value texts.
func parseGetValue(s string) []string {
	s = strings.TrimSpace(s)
	if !strings.HasPrefix(s, "(") {
		return nil
	}
	// split top-level pairs
	var pairs []string
	depth, start := 0, -1
	for i := 0; i < len(s); i++ {
		switch s[i] {
		case '(':
			depth++
			if depth == 2 {
				start = i
			}
		case ')':
			if depth == 2 && start >= 0 {
				pairs = append(pairs, s[start:i+1])
				start = -1
			}
			depth--
		}
	}
	var vals []string
	for _, p := range pairs {
		inner := p[1 : len(p)-1]
		// the value is the last top-level s-expression of the pair
		d, cut := 0, -1
		for i := len(inner) - 1; i >= 0; i-- {
			c := inner[i]
			if c == ')' {
				d++
			} else if c == '(' {
				d--
			}
			if d == 0 && (c == ' ' || c == '\n') && i < len(inner)-1 {
				cut = i
				break
			}
			if d == 0 && c == '(' {
				cut = i - 1
				break
			}
		}
		if cut < 0 {
			return nil
		}
		vals = append(vals, strings.TrimSpace(inner[cut+1:]))
	}
	return vals
}

// goLiteral converts an SMT value to Go source.
func goLiteral(v string) string {
	v = strings.TrimSpace(v)
	switch v {
	case "true", "false":
		return v
	}
	if m := regexp.MustCompile(`^\(-\s+(.*)\)$`).FindStringSubmatch(v); m != nil {
		return "-" + goLiteral(m[1])
	}
	if m := regexp.MustCompile(`^\(/\s+(\S+)\s+(\S+)\)$`).FindStringSubmatch(v); m != nil {
		a, ok1 := new(big.Rat).SetString(m[1])
		b, ok2 := new(big.Rat).SetString(m[2])
		if ok1 && ok2 && b.Sign() != 0 {
			f, _ := new(big.Rat).Quo(a, b).Float64()
			return fmt.Sprintf("%v", f)
		}
	}
	if strings.HasPrefix(v, "#x") {
		return "0x" + v[2:]
	}
	if strings.HasPrefix(v, "#b") {
		return "0b" + v[2:]
	}
	if strings.HasPrefix(v, "\"") {
		return v
	}
	if regexp.MustCompile(`^[0-9]+\.0$`).MatchString(v) {
		return v
	}
	return v
}
