package main

import (
	"fmt"
	"go/token"
	"go/types"
	"strings"

	"golang.org/x/tools/go/ssa"
)

const maxInlineDepth = 8

func (u *Unit) call(fr *Frame, st *State, c *ssa.CallCommon, pos token.Pos, resT types.Type) Val {
	var fn Val
	var args []Val
	if c.IsInvoke() {
		fn = u.val(fr, st, c.Value)
	} else {
		fn = u.val(fr, st, c.Value)
	}
	for _, a := range c.Args {
		args = append(args, u.val(fr, st, a))
	}
	return u.callVals(fr, st, c, fn, args, pos, resT, "call")
}

func resultsToVal(sig *types.Signature, vals []Val) Val {
	switch sig.Results().Len() {
	case 0:
		return nil
	case 1:
		return vals[0]
	}
	return &TupleVal{Elems: vals}
}

// callVals performs a call whose callee value and arguments are already evaluated.
func (u *Unit) callVals(fr *Frame, st *State, c *ssa.CallCommon, fn Val, args []Val, pos token.Pos, resT types.Type, mode string) Val {
	sig := c.Signature()
	if _, isBuiltin := fn.(*BuiltinVal); !isBuiltin {
		if _, isClosure := fn.(*ClosureVal); !isClosure || mode != "call" {
			for _, a := range args {
				u.escape(st, a)
			}
		}
		if mode != "call" {
			u.escape(st, fn)
		}
	}
	u.atCallChecks(fr, st, c, fn, args, pos)
	if c.IsInvoke() {
		key := ifaceMethodKey(c)
		recv := fn
		all := append([]Val{recv}, args...)
		// method signature with receiver for naming
		if ct := u.prog.specs.Contracts[key]; ct != nil {
			return resultsToVal(sig, u.applyContract(fr, st, ct, sig, all, true, pos, key))
		}
		if u.prog.isPure(key) {
			return u.freshResultsArgs(st, sig, key, all)
		}
		return u.uncontracted(st, sig, key, pos)
	}
	switch f := fn.(type) {
	case *BuiltinVal:
		return u.builtin(fr, st, f.Name, c, args, pos)
	case *ClosureVal:
		key := funcKey(f.Fn)
		if ct := u.prog.specs.Contracts[key]; ct != nil && ct.Flags["modular"] != "" {
			return resultsToVal(sig, u.applyClosureContract(fr, st, ct, f.Fn, args, f.Bindings, pos, key))
		}
		return u.inline(fr, st, f.Fn, args, f.Bindings, pos)
	case *FnVal:
		return u.callStatic(fr, st, f.Fn, args, pos)
	case *BoundVal:
		return u.callStatic(fr, st, f.Fn, append([]Val{f.Recv}, args...), pos)
	case *Term:
		if cl, bind := u.resolveFuncVar(fr, c.Value); cl != nil {
			key := funcKey(cl)
			if ct := u.prog.specs.Contracts[key]; ct != nil && ct.Flags["modular"] != "" {
				return resultsToVal(sig, u.applyClosureContract(fr, st, ct, cl, args, bind, pos, key))
			}
			return u.inline(fr, st, cl, args, bind, pos)
		}
		// a local func variable assigned one of several known functions (operator tables:
		// `switch op { case ">": fn = sql.Gt ... }; fn(a, b)`): one case per candidate
		if v, ok := u.dispatchFuncVar(fr, st, c, f, args, pos); ok {
			return v
		}
		// dynamic function value: a contract on this very field (more specific than one on
		// its func type: two CancelFunc fields of one struct end different things)
		if key := fieldFuncKey(c.Value); key != "" {
			if ct := u.prog.specs.Contracts["fieldfunc:"+key]; ct != nil {
				return resultsToVal(sig, u.applyContract(fr, st, ct, sig, args, false, pos, key))
			}
		}
		// a named func type with a contract (e.g. context.CancelFunc)
		if ct := u.prog.specs.Contracts["functype:"+namedKey(c.Value.Type())]; ct != nil {
			return resultsToVal(sig, u.applyContract(fr, st, ct, sig, args, false, pos, "functype:"+namedKey(c.Value.Type())))
		}
		return u.uncontracted(st, sig, "dynamic call "+c.Value.Name(), pos)
	}
	unsupp("call of %T", fn)
	return nil
}

func fieldFuncKey(v ssa.Value) string {
	ld, ok := v.(*ssa.UnOp)
	if !ok || ld.Op != token.MUL {
		return ""
	}
	fa, ok := ld.X.(*ssa.FieldAddr)
	if !ok {
		return ""
	}
	st := ptrElem(fa.X.Type())
	s := st.Underlying().(*types.Struct)
	return namedKey(st) + "." + s.Field(fa.Field).Name()
}

func (u *Unit) callStatic(fr *Frame, st *State, fn *ssa.Function, args []Val, pos token.Pos) Val {
	key := funcKey(fn)
	sig := fn.Signature
	switch key {
	case "(*sync.Mutex).Lock", "(*sync.RWMutex).Lock", "(*sync.RWMutex).RLock":
		u.lockOp(st, args, pos, true)
		return nil
	case "(*sync.Mutex).Unlock", "(*sync.RWMutex).Unlock", "(*sync.RWMutex).RUnlock":
		u.lockOp(st, args, pos, false)
		return nil
	}
	if u.checks["constfmt"] && (key == "fmt.Sprintf" || key == "fmt.Errorf" || key == "fmt.Sprint" && false) && len(args) > 0 {
		// opt-in (flag checks=+constfmt): the format of every fmt.Sprintf / fmt.Errorf
		// call of the unit is a constant of the program, never computed text
		goal := False
		if ft, ok := args[0].(*Term); ok {
			if _, isLit := u.ctx.StrLitTable()[ft.S]; isLit {
				goal = True
			}
		}
		u.addObl(st, "format/constant", "the format string of "+key+" is a constant (request text is only ever an operand)", pos, goal)
	}
	if key == "fmt.Sprintf" {
		if v, ok := u.sprintfModel(st, args); ok {
			return v
		}
	}
	// synthetic wrappers ($bound, $thunk): unwrap when trivially possible
	if fn.Synthetic != "" && strings.HasPrefix(fn.Synthetic, "bound method wrapper") {
		// bound wrapper: FreeVars[0] is the receiver; cannot be reached through FnVal
	}
	if ct := u.prog.specs.Contracts[key]; ct != nil && ct.Flags["returns"] != "" {
		return u.returnsClosure(fr, st, fn, ct, args, pos)
	}
	if ct := u.prog.specs.Contracts[key]; ct != nil && ct.Flags["inline"] == "" {
		hasRecv := sig.Recv() != nil
		return resultsToVal(sig, u.applyContract(fr, st, ct, sig, args, hasRecv, pos, key))
	}
	if ct := u.prog.specs.Contracts[key]; ct != nil && ct.Flags["inline"] != "" {
		return u.inline(fr, st, fn, args, nil, pos)
	}
	if u.prog.isPure(key) {
		return u.freshResultsArgs(st, sig, key, args)
	}
	return u.uncontracted(st, sig, key, pos)
}

func (u *Unit) freshResults(st *State, sig *types.Signature, key string) Val {
	return u.freshResultsArgs(st, sig, key, nil)
}

// freshResultsArgs: results of a side-effect free call; for calls declared
// `functions` the (single, scalar) result is an uninterpreted function of the arguments.
func (u *Unit) freshResultsArgs(st *State, sig *types.Signature, key string, args []Val) Val {
	if args != nil && u.prog.isFunction(key) && sig.Results().Len() == 1 {
		var as []*Term
		var sorts []Sort
		ok := true
		for _, a := range args {
			t, isT := a.(*Term)
			if !isT {
				ok = false
				break
			}
			as = append(as, t)
			sorts = append(sorts, t.Sort)
		}
		rsort, scalar := u.sortOf(sig.Results().At(0).Type())
		if ok && scalar {
			f := u.ctx.Func("fn!"+key, sorts, rsort)
			r := u.ctx.Define("ret", App(rsort, f, as...))
			u.assume(st, u.typeFacts(r, sig.Results().At(0).Type()))
			return r
		}
	}
	var vals []Val
	for i := 0; i < sig.Results().Len(); i++ {
		vals = append(vals, u.freshVal(st, sig.Results().At(i).Type(), "ret_"+shortName(key)))
	}
	return resultsToVal(sig, vals)
}

func shortName(key string) string {
	if i := strings.LastIndex(key, "/"); i >= 0 {
		key = key[i+1:]
	}
	return key
}

func (u *Unit) uncontracted(st *State, sig *types.Signature, key string, pos token.Pos) Val {
	u.uncontractedCalls[key] = true
	u.checkCallFrame(st, nil, true, pos, key)
	u.havocAll(st, "call to "+key+" (no contract)")
	pre := st.now
	st.now = u.ctx.FreshConst("now", SInt)
	u.assume(st, Ge(st.now, pre))
	res := u.freshResults(st, sig, key)
	// built-in ghost `lastCallError` (when a spec declares it): the error returned by
	// the last call the unit made to code without a contract - a call through a
	// function-typed field or variable has no name a contract could bind its result to
	if g, ok := u.prog.specs.GhostVars["lastCallError"]; ok && sig.Results().Len() == 1 {
		if t, isT := res.(*Term); isT {
			if _, sort := u.resolveType(g.GoType, g.PkgPath); sort == t.Sort {
				u.storeLoc(st, "G!lastCallError", sort, ghostPtr, t)
			}
		}
	}
	return res
}

// inline executes a closure / function body in place.
func (u *Unit) inline(fr *Frame, st *State, fn *ssa.Function, args []Val, bindings []Val, pos token.Pos) Val {
	if fr.depth >= maxInlineDepth {
		unsupp("inline depth exceeded at %s", fn)
	}
	if len(fn.Blocks) == 0 && fn.Pkg != nil {
		// a function of a dependency asked to be executed in place: build its package's SSA now
		fn.Pkg.Build()
	}
	if len(fn.Blocks) == 0 {
		return u.uncontracted(st, fn.Signature, funcKey(fn), pos)
	}
	nf := u.newFrame(fn, fr)
	nf.params = args
	nf.freeVars = bindings
	nf.callPos = pos
	out, vals := u.execBody(nf, st)
	// execBody returns a (possibly new) state object: copy it back into st
	*st = *out
	return resultsToVal(fn.Signature, vals)
}

// bindArgs builds the name environment of a callee contract.
func (u *Unit) bindArgs(sig *types.Signature, args []Val, hasRecv bool) (map[string]envVar, []Val) {
	return u.bindArgsNamed(sig, args, hasRecv, nil)
}

func (u *Unit) bindArgsNamed(sig *types.Signature, args []Val, hasRecv bool, names []string) (map[string]envVar, []Val) {
	vars := map[string]envVar{}
	i := 0
	if hasRecv && len(args) > 0 {
		var rt types.Type
		name := "recv"
		if sig.Recv() != nil {
			rt = sig.Recv().Type()
			if sig.Recv().Name() != "" && sig.Recv().Name() != "_" {
				name = sig.Recv().Name()
			}
		}
		vars[name] = envVar{args[0], rt}
		vars["recv"] = envVar{args[0], rt}
		i = 1
	}
	ps := sig.Params()
	for k := 0; k < ps.Len() && i+k < len(args); k++ {
		p := ps.At(k)
		ev := envVar{args[i+k], p.Type()}
		if p.Name() != "" && p.Name() != "_" {
			vars[p.Name()] = ev
		}
		vars[fmt.Sprintf("arg%d", k)] = ev
		if k < len(names) {
			vars[names[k]] = ev
		}
	}
	return vars, args
}

func (u *Unit) checkPre(fr *Frame, st *State, ct *Contract, sig *types.Signature, args []Val, pos token.Pos, key string, hasRecvOpt *bool) {
	hasRecv := sig.Recv() != nil
	if hasRecvOpt != nil {
		hasRecv = *hasRecvOpt
	}
	vars, _ := u.bindArgsNamed(sig, args, hasRecv, ct.ParamNames)
	u.aliasRenamedParams(vars, key)
	env := &Env{u: u, st: st, old: st, vars: vars, pkgPath: ct.PkgPath, fvOverride: u.fvCallOrEmpty()}
	for i, r := range ct.Requires {
		label := fmt.Sprintf("pre@%s#%d", shortName(key), i+1)
		if r.Label != "" {
			label = fmt.Sprintf("pre@%s#%s", shortName(key), r.Label)
		}
		u.counters[label]++
		name := fmt.Sprintf("%s/site%d", label, u.counters[label])
		u.addOblNamed(st, "pre@call", name, "precondition of "+key+": "+r.Src, pos, u.evalBoolF(env, st, r.Expr))
	}
}

func (u *Unit) applyContract(fr *Frame, st *State, ct *Contract, sig *types.Signature, args []Val, hasRecv bool, pos token.Pos, key string) []Val {
	if ct.Extern {
		u.externsUsed[key] = true
	} else if len(ct.Props) == 0 {
		// a contract on a repository function that carries no property tag is proved
		// by no check: it is an assumption and is reported as one
		u.externsUsed["~"+key] = true
	}
	hr := hasRecv
	u.checkPre(fr, st, ct, sig, args, pos, key, &hr)
	vars, _ := u.bindArgsNamed(sig, args, hasRecv, ct.ParamNames)
	u.aliasRenamedParams(vars, key)
	old := st.clone()
	// frame
	oldEnv := &Env{u: u, st: old, old: old, vars: vars, pkgPath: ct.PkgPath, fvOverride: u.fvCallOrEmpty()}
	if ct.ModifiesAll || !ct.HasModifies {
		u.checkCallFrame(st, nil, true, pos, key)
		// ghost variables the contract assigns keep their value across the havoc: the
		// assignment's right-hand side reads the value before the call
		saved := map[string]*Term{}
		for _, gs := range ct.GhostSets {
			if t, ok := st.heap["G!"+gs.Var]; ok {
				saved["G!"+gs.Var] = t
			}
		}
		u.havocAll(st, "call to "+key+" (contract modifies everything)")
		for k, t := range saved {
			st.heap[k] = t
		}
	} else {
		var items, havoc []frameItem
		for _, m := range ct.Modifies {
			its := u.evalLoc(oldEnv, m.Expr, m.Src)
			items = append(items, its...)
			assigned := false
			for _, gs := range ct.GhostSets {
				if id, ok := m.Expr.(*EIdent); ok && id.Name == gs.Var {
					assigned = true
				}
			}
			scratch := false
			for _, gi := range ct.GhostInits {
				if id, ok := m.Expr.(*EIdent); ok && id.Name == gi.Var {
					scratch = true
				}
			}
			if scratch {
				// scratch ghost state of the callee: havocked, outside the caller's frame
				items = items[:len(items)-len(its)]
			}
			if !assigned {
				havoc = append(havoc, its...)
			}
		}
		u.checkCallFrame(st, items, false, pos, key)
		u.havocItems(st, havoc)
	}
	var iterInv []*Term // invariant of an iterated closure: holds after the iteration if it ended without error
	if pname := ct.Flags["iterates"]; pname != "" {
		// iteration schema: the callee calls its function argument any number of
		// times (jx.Decoder.Arr/Obj, ...). The closure's own contract is used as the
		// invariant of that hidden loop: its requires must hold now, what it
		// modifies becomes unknown, and its requires hold again afterwards (the
		// closure unit proves "requires ==> ensures", and the contract author states
		// the invariant in both).
		for k := 0; k < sig.Params().Len(); k++ {
			if sig.Params().At(k).Name() != pname {
				continue
			}
			idx := k
			if hasRecv {
				idx++
			}
			if idx >= len(args) {
				continue
			}
			cv, ok := args[idx].(*ClosureVal)
			if !ok {
				u.note("iterated function argument of " + key + " is not a closure literal: its effects are not modelled")
				u.checkCallFrame(st, nil, true, pos, key+" (iterated function value)")
				u.havocAll(st, "call to "+key+" with an unknown function value")
				continue
			}
			ck := funcKey(cv.Fn)
			cc := u.prog.specs.Contracts[ck]
			if cc == nil {
				u.uncontractedCalls[ck+" (iterated by "+shortName(key)+")"] = true
				u.checkCallFrame(st, nil, true, pos, ck)
				u.havocAll(st, "closure "+ck+" iterated by "+key+" has no contract")
				continue
			}
			saved := u.fvCall
			u.fvCall = closureFV(cv.Fn, cv.Bindings)
			// parameters of the closure are unknown to the caller
			var cargs []Val
			for i := 0; i < cv.Fn.Signature.Params().Len(); i++ {
				cargs = append(cargs, u.freshVal(st, cv.Fn.Signature.Params().At(i).Type(), "iter_arg"))
			}
			no := false
			u.checkPre(fr, st, cc, cv.Fn.Signature, cargs, pos, ck, &no)
			cvars, _ := u.bindArgsNamed(cv.Fn.Signature, cargs, false, cc.ParamNames)
			cenv := &Env{u: u, st: st, old: st, vars: cvars, pkgPath: cc.PkgPath, fvOverride: u.fvCallOrEmpty()}
			if cc.ModifiesAll || !cc.HasModifies {
				u.checkCallFrame(st, nil, true, pos, ck)
				u.havocAll(st, "iterated closure "+ck+" modifies everything")
			} else {
				var items []frameItem
				for _, m := range cc.Modifies {
					items = append(items, u.evalLoc(cenv, m.Expr, m.Src)...)
				}
				u.checkCallFrame(st, items, false, pos, ck)
				u.havocItems(st, items)
			}
			for _, r := range cc.Requires {
				iterInv = append(iterInv, u.evalBoolF(cenv, st, r.Expr))
			}
			u.fvCall = saved
		}
	}
	if ct.Flags["writes-boxed-pointers"] != "" {
		// e.g. rows.Scan(&a, &b): every cell whose address was boxed into an
		// interface by this activation may be overwritten
		for _, o := range st.boxed {
			u.storeVal(st, o.t, o.ptr, u.freshVal(st, o.t, "scanned"))
		}
	}
	pre := st.now
	st.now = u.ctx.FreshConst("now", SInt)
	u.assume(st, Ge(st.now, pre))
	// results
	var results []Val
	var rtypes []types.Type
	rs := sig.Results()
	if ct.Flags["function"] != "" && rs.Len() == 1 {
		// deterministic function of its (scalar) arguments
		var as []*Term
		var sorts []Sort
		okAll := true
		var flat func(a Val)
		flat = func(a Val) {
			switch x := a.(type) {
			case *Term:
				as = append(as, x)
				sorts = append(sorts, x.Sort)
			case *StructVal:
				for _, f := range x.Fields {
					flat(f)
				}
			default:
				okAll = false
			}
		}
		for _, a := range args {
			flat(a)
		}
		rsort, scalar := u.sortOf(rs.At(0).Type())
		if okAll && scalar {
			f := u.ctx.Func("fn!"+key, sorts, rsort)
			r := u.ctx.Define("ret", App(rsort, f, as...))
			u.assume(st, u.typeFacts(r, rs.At(0).Type()))
			results = append(results, r)
			rtypes = append(rtypes, rs.At(0).Type())
		}
	}
	if results == nil {
		for i := 0; i < rs.Len(); i++ {
			results = append(results, u.freshVal(st, rs.At(i).Type(), "ret_"+shortName(key)))
			rtypes = append(rtypes, rs.At(i).Type())
		}
	}
	if len(iterInv) > 0 {
		inv := And(iterInv...)
		if rs.Len() == 1 {
			if rt, ok := results[0].(*Term); ok && rt.Sort == SIface {
				// the iteration stops at the first error: the invariant is only known to hold if none occurred
				inv = Implies(Eq(rt, NilIface), inv)
			}
		}
		u.assume(st, inv)
	}
	env := &Env{u: u, st: st, old: old, vars: cloneVars(vars), pkgPath: ct.PkgPath, results: results, resultTypes: rtypes, fvOverride: u.fvCallOrEmpty()}
	for i := 0; i < rs.Len(); i++ {
		if n := rs.At(i).Name(); n != "" && n != "_" {
			env.vars[n] = envVar{results[i], rs.At(i).Type()}
		}
	}
	// ghost assignments: assigned ghost variables are not havocked, so the
	// right-hand side reads their value before the call; results are in scope
	u.applyGhostSets(ct, env, st)
	for _, e := range ct.Ensures {
		u.assume(st, u.evalBoolF(env, st, e.Expr))
	}
	return results
}

// applyGhostSets performs the ghost assignments of a contract in st.
func (u *Unit) applyGhostSets(ct *Contract, env *Env, st *State) {
	u.applyGhostAssigns(ct.GhostSets, env, st)
}

func (u *Unit) applyGhostAssigns(sets []GhostSet, env *Env, st *State) {
	for _, gs := range sets {
		g, ok := u.prog.specs.GhostVars[gs.Var]
		if !ok {
			unsupp("ghostset %s: not a ghost variable", gs.Var)
		}
		_, sort := u.resolveType(g.GoType, g.PkgPath)
		v := u.evalTerm(env, gs.Expr)
		if v.Sort != sort {
			unsupp("ghostset %s: sort %s, want %s", gs.Var, v.Sort, sort)
		}
		u.storeLoc(st, "G!"+gs.Var, sort, ghostPtr, v)
	}
}

func cloneVars(m map[string]envVar) map[string]envVar {
	n := make(map[string]envVar, len(m))
	for k, v := range m {
		n[k] = v
	}
	return n
}

// ---------------------------------------------------------------------------
// builtins

func (u *Unit) builtin(fr *Frame, st *State, name string, c *ssa.CallCommon, args []Val, pos token.Pos) Val {
	switch name {
	case "len":
		return u.lenOf(st, args[0], c.Args[0].Type())
	case "cap":
		if t, ok := args[0].(*Term); ok && t.Sort == SSlice {
			return scap(t)
		}
	case "append":
		return u.appendOp(st, args, c.Args[0].Type(), c.Args[1].Type())
	case "copy":
		return u.copyOp(st, args, c.Args[0].Type(), c.Args[1].Type(), pos)
	case "delete":
		mt := c.Args[0].Type().Underlying().(*types.Map)
		dom, _, ln, ks, _ := u.mapNames(mt)
		m := args[0].(*Term)
		k := args[1].(*Term)
		u.checkMapWrite(st, m, pos)
		// `at map.delete label: e`: proved right before every delete() of the unit (arg0 is
		// the map, arg1 the key) - under which condition an entry may be removed
		u.atPseudo(fr, st, "map.delete", "at the delete from the map: ", pos, []envVar{{args[0], c.Args[0].Type()}, {args[1], c.Args[1].Type()}})
		d := u.mapGet(st, dom, ArrSort(SRef, ArrSort(ks, SBool)))
		l := u.mapGet(st, ln, ArrSort(SRef, SInt))
		had := Select(Select(d, m), k)
		st.heap[ln] = u.ctx.Define(ln, Store(l, m, Ite(had, Sub(Select(l, m), IntLit(1)), Select(l, m))))
		st.heap[dom] = u.ctx.Define(dom, Store(d, m, Store(Select(d, m), k, False)))
		return nil
	case "close":
		// `at chan.close label: e`: proved right before every close() of the unit (arg0 is
		// the channel) - closing is what releases the readers, so what they may read has
		// to be in place by then
		u.atPseudo(fr, st, "chan.close", "at the close of the channel: ", pos, []envVar{{args[0], c.Args[0].Type()}})
		// built-in ghost `closeCalls` (when a spec declares it): how many channels the unit
		// has closed so far - a send must come before the close of its channel
		if g, ok := u.prog.specs.GhostVars["closeCalls"]; ok {
			if _, sort := u.resolveType(g.GoType, g.PkgPath); sort == SInt {
				cur := u.loadLoc(st, "G!closeCalls", SInt, ghostPtr)
				u.storeLoc(st, "G!closeCalls", SInt, ghostPtr, Add(cur, IntLit(1)))
			}
		}
		return nil
	case "print", "println":
		return nil
	case "Slice":
		// unsafe.Slice(ptr, n): a view of memory we do not model; only its length is known
		n := u.toInt(args[1].(*Term))
		if v, ok := u.byteView(fr, st, c, n); ok {
			return v
		}
		r := u.ctx.FreshConst("unsafe_slice", SSlice)
		u.assume(st, And(Eq(slen(r), n), Ge(soff(r), IntLit(0)), Ge(scap(r), n), Le(Add(soff(r), scap(r)), IntLit(9223372036854775807))))
		u.note("unsafe.Slice: contents not modelled")
		return r
	case "ssa:deferstack":
		return u.ctx.Const("deferstack", SPtr)
	case "recover":
		return u.ctx.FreshConst("recovered", SIface)
	case "min", "max":
		acc := args[0].(*Term)
		for _, a := range args[1:] {
			t := a.(*Term)
			if name == "min" {
				acc = Ite(Lt(t, acc), t, acc)
			} else {
				acc = Ite(Gt(t, acc), t, acc)
			}
		}
		return acc
	}
	unsupp("builtin %s", name)
	return nil
}

func (u *Unit) lenOf(st *State, v Val, t types.Type) *Term {
	x, ok := v.(*Term)
	if !ok {
		unsupp("len of %T", v)
	}
	switch x.Sort {
	case SSlice:
		return slen(x)
	case SStr, SString:
		return u.strLen(x)
	case SRef:
		if mt, ok := types.Unalias(t).Underlying().(*types.Map); ok {
			if !u.mapModelled(mt) {
				r := u.ctx.FreshConst("maplen", SInt)
				u.assume(st, Ge(r, IntLit(0)))
				return r
			}
			_, _, ln, _, _ := u.mapNames(mt)
			l := u.mapGet(st, ln, ArrSort(SRef, SInt))
			r := u.ctx.Define("maplen", Select(l, x))
			u.assume(st, Ge(r, IntLit(0)))
			return r
		}
		r := u.ctx.FreshConst("chanlen", SInt)
		u.assume(st, Ge(r, IntLit(0)))
		return r
	}
	if at, ok := types.Unalias(t).Underlying().(*types.Array); ok {
		return IntLit(at.Len())
	}
	if p, ok := types.Unalias(t).Underlying().(*types.Pointer); ok {
		if at, ok := p.Elem().Underlying().(*types.Array); ok {
			return IntLit(at.Len())
		}
	}
	unsupp("len of %s (sort %s)", t, x.Sort)
	return nil
}

// appendOp: the result lives on a fresh backing array holding the old
// elements followed by the new ones.
func (u *Unit) appendOp(st *State, args []Val, st0, st1 types.Type) Val {
	s := args[0].(*Term)
	elemT := types.Unalias(st0).Underlying().(*types.Slice).Elem()
	add, ok := args[1].(*Term)
	if !ok {
		unsupp("append of %T", args[1])
	}
	if add.S == NilSlice.S {
		return s
	}
	var addLen *Term
	isStr := add.Sort == SStr || add.Sort == SString
	if isStr {
		addLen = u.strLen(add)
	} else {
		addLen = slen(add)
	}
	r := u.newRef(st, "append")
	n := u.ctx.Define("applen", Add(slen(s), addLen))
	copyMap := func(name string, sort Sort) {
		m := u.heapGet(st, name, sort)
		fresh := u.ctx.FreshConst("app_arr", ArrSort(SInt, sort))
		i := &Term{"i!q", SInt}
		srcOld := Select(Select(m, sarr(s)), Eidx(soff(s), i))
		ax1 := Forall([]Binder{{"i!q", SInt}}, Implies(And(Le(IntLit(0), i), Lt(i, slen(s))), Eq(Select(fresh, i), srcOld)), Select(fresh, i))
		u.assume(st, ax1)
		if !isStr {
			srcNew := Select(Select(m, sarr(add)), Eidx(soff(add), Sub(i, slen(s))))
			ax2 := Forall([]Binder{{"i!q", SInt}}, Implies(And(Le(slen(s), i), Lt(i, n)), Eq(Select(fresh, i), srcNew)), Select(fresh, i))
			u.assume(st, ax2)
		}
		u.heapSet(st, name, Store(m, r, fresh))
	}
	u.forEachElemMap(elemT, r, copyMap)
	c := u.ctx.FreshConst("appcap", SInt)
	u.assume(st, Ge(c, n))
	return u.ctx.Define("app", mkslice(r, IntLit(0), n, c))
}

// forEachElemMap enumerates the heap maps holding the elements of a slice of elemT.
func (u *Unit) forEachElemMap(elemT types.Type, r *Term, f func(name string, sort Sort)) {
	if s, ok := u.structOf(elemT); ok {
		for i := 0; i < s.NumFields(); i++ {
			fl := s.Field(i)
			if _, nested := u.structOf(fl.Type()); nested {
				// the nested value is not carried over: the fields of the new elements that
				// hold struct values stay unconstrained (an over-approximation - nothing
				// can be proved about them, nothing false is assumed)
				u.note(fmt.Sprintf("slice of %s: the nested struct value %s of its elements is not modelled (left unconstrained)", elemT, fl.Name()))
				continue
			}
			sort, _ := u.sortOf(fl.Type())
			f(fieldMapName(elemT, fl.Name()), sort)
		}
		return
	}
	sort, _ := u.sortOf(elemT)
	f(elemMapName(sort), sort)
}

func (u *Unit) copyOp(st *State, args []Val, dstT, srcT types.Type, pos token.Pos) Val {
	dst := args[0].(*Term)
	src, ok := args[1].(*Term)
	if !ok {
		unsupp("copy from %T", args[1])
	}
	elemT := types.Unalias(dstT).Underlying().(*types.Slice).Elem()
	var srcLen *Term
	isStr := src.Sort == SStr || src.Sort == SString
	if isStr {
		srcLen = u.strLen(src)
	} else {
		srcLen = slen(src)
	}
	n := u.ctx.Define("copyn", Ite(Lt(slen(dst), srcLen), slen(dst), srcLen))
	u.forEachElemMap(elemT, sarr(dst), func(name string, sort Sort) {
		u.checkWrite(st, name, mkptr(sarr(dst), soff(dst)), pos, "copy")
		m := u.heapGet(st, name, sort)
		fresh := u.ctx.FreshConst("copy_arr", ArrSort(SInt, sort))
		i := &Term{"i!q", SInt}
		inRange := And(Le(soff(dst), i), Lt(i, Add(soff(dst), n)))
		oldv := Select(Select(m, sarr(dst)), i)
		var newv *Term
		if isStr {
			newv = Select(fresh, i) // unconstrained bytes
		} else {
			newv = Select(Select(m, sarr(src)), Add(soff(src), Sub(i, soff(dst))))
		}
		u.assume(st, Forall([]Binder{{"i!q", SInt}}, Eq(Select(fresh, i), Ite(inRange, newv, oldv)), Select(fresh, i)))
		u.heapSet(st, name, Store(m, sarr(dst), fresh))
	})
	return n
}

// resolveFuncVar: the callee is loaded from a variable of the enclosing
// function (captured or local) that is assigned exactly once, a closure.
// Returns the closure and the bindings of its free variables expressed in the
// current frame (same captured variable = same cell).
func (u *Unit) resolveFuncVar(fr *Frame, v ssa.Value) (*ssa.Function, []Val) {
	ld, ok := v.(*ssa.UnOp)
	if !ok || ld.Op != token.MUL {
		return nil, nil
	}
	if cell, ok := ld.X.(*ssa.Alloc); ok {
		// a local func variable of this very function, assigned once
		var mc *ssa.MakeClosure
		for _, r := range *cell.Referrers() {
			if s, ok := r.(*ssa.Store); ok && s.Addr == cell {
				m, isMC := s.Val.(*ssa.MakeClosure)
				if !isMC || mc != nil {
					return nil, nil
				}
				mc = m
			}
		}
		if mc == nil {
			return nil, nil
		}
		var bind []Val
		for _, b := range mc.Bindings {
			v, ok := fr.regs[b]
			if !ok {
				if a, isA := b.(*ssa.Alloc); isA && isCellAlloc(a) {
					v = &CellAddr{a}
				} else {
					return nil, nil
				}
			}
			bind = append(bind, v)
		}
		return mc.Fn.(*ssa.Function), bind
	}
	fv, ok := ld.X.(*ssa.FreeVar)
	if !ok {
		return nil, nil
	}
	parent := fr.fn.Parent()
	if parent == nil {
		return nil, nil
	}
	// the Alloc in the parent with that name
	var cell *ssa.Alloc
	for _, b := range parent.Blocks {
		for _, in := range b.Instrs {
			if a, ok := in.(*ssa.Alloc); ok && a.Comment == fv.Name() && types.Identical(a.Type(), fv.Type()) {
				if cell != nil {
					return nil, nil
				}
				cell = a
			}
		}
	}
	if cell == nil {
		return nil, nil
	}
	var mc *ssa.MakeClosure
	for _, r := range *cell.Referrers() {
		if s, ok := r.(*ssa.Store); ok && s.Addr == cell {
			m, isMC := s.Val.(*ssa.MakeClosure)
			if !isMC || mc != nil {
				return nil, nil
			}
			mc = m
		}
	}
	if mc == nil {
		return nil, nil
	}
	cl := mc.Fn.(*ssa.Function)
	var bind []Val
	for _, cfv := range cl.FreeVars {
		var found Val
		for i, mine := range fr.fn.FreeVars {
			if mine.Name() == cfv.Name() && types.Identical(mine.Type(), cfv.Type()) && i < len(fr.freeVars) {
				found = fr.freeVars[i]
			}
		}
		if found == nil {
			p := u.ctx.FreshConst("fv_"+cfv.Name(), SPtr)
			found = p
			u.note("captured variable " + cfv.Name() + " of " + funcKey(cl) + " is not captured by " + funcKey(fr.fn) + ": unconstrained cell")
		}
		bind = append(bind, found)
	}
	return cl, bind
}

// applyClosureContract applies the contract of a closure whose free variables are bound to cells.
func (u *Unit) applyClosureContract(fr *Frame, st *State, ct *Contract, cl *ssa.Function, args []Val, bind []Val, pos token.Pos, key string) []Val {
	saved := u.fvCall
	u.fvCall = closureFV(cl, bind)
	defer func() { u.fvCall = saved }()
	return u.applyContract(fr, st, ct, cl.Signature, args, false, pos, key)
}

func closureFV(cl *ssa.Function, bind []Val) map[string]freeVarInfo {
	m := map[string]freeVarInfo{}
	for i, fv := range cl.FreeVars {
		if i < len(bind) {
			if p, ok := bind[i].(*Term); ok {
				m[fv.Name()] = freeVarInfo{p, ptrElem(fv.Type())}
			}
		}
	}
	return m
}

// fvCallOrEmpty: inside a callee contract, names never resolve to the caller's captured variables.
func (u *Unit) fvCallOrEmpty() map[string]freeVarInfo {
	if u.fvCall != nil {
		return u.fvCall
	}
	return map[string]freeVarInfo{}
}

// returnsClosure: contract flag returns=<name>$k. The callee is a constructor
// that returns its k-th closure; the closure's captured variables that are
// parameters of the constructor hold the arguments of this call. The
// constructor's own side effects are those of its contract (modifies).
func (u *Unit) returnsClosure(fr *Frame, st *State, fn *ssa.Function, ct *Contract, args []Val, pos token.Pos) Val {
	name := ct.Flags["returns"]
	var cl *ssa.Function
	for _, an := range fn.AnonFuncs {
		if an.Name() == name || strings.HasSuffix(funcKey(an), name) {
			cl = an
		}
	}
	if cl == nil {
		unsupp("returns=%s: no such closure in %s", name, fn)
	}
	hr := fn.Signature.Recv() != nil
	u.checkPre(fr, st, ct, fn.Signature, args, pos, funcKey(fn), &hr)
	var bind []Val
	for _, fv := range cl.FreeVars {
		r := u.newRef(st, "cap_"+fv.Name())
		p := mkptr(r, IntLit(0))
		elem := ptrElem(fv.Type())
		var v Val
		for i, prm := range fn.Params {
			if prm.Name() == fv.Name() && i < len(args) {
				v = args[i]
			}
		}
		if v == nil {
			v = u.freshVal(st, elem, "cap_"+fv.Name())
		}
		u.storeVal(st, elem, p, v)
		bind = append(bind, p)
	}
	return &ClosureVal{Fn: cl, Bindings: bind}
}

// lockOp: lock invariants. Lock() = the protected fields take arbitrary values
// satisfying the invariant (other goroutines may have changed them while the
// lock was free); Unlock() = the invariant must hold again. This makes facts
// proved under the lock hold for every interleaving of lock-protected code.
func (u *Unit) lockOp(st *State, args []Val, pos token.Pos, acquire bool) {
	if len(args) == 0 {
		return
	}
	recv, ok := args[0].(*Term)
	if !ok {
		return
	}
	or, ok := u.subOrigins[recv.S]
	if !ok {
		u.note("mutex that is not a struct field: lock operations have no modelled effect")
		return
	}
	var li *LockInv
	for _, l := range u.prog.specs.LockInvs {
		if l.TypeName == namedKey(or.structT) && l.Mutex == or.field {
			li = l
		}
	}
	if li == nil {
		u.note("mutex " + namedKey(or.structT) + "." + or.field + " has no lock invariant: lock operations have no modelled effect")
		return
	}
	s, _ := u.structOf(or.structT)
	selfT := types.NewPointer(or.structT)
	heldKey := or.base.S + "|" + li.Mutex
	if acquire {
		if st.held == nil {
			st.held = map[string]*Term{}
		}
		st.held[heldKey] = or.base
		u.lockedInvs[li.TypeName+"."+li.Mutex] = true
		for _, fname := range li.Fields {
			for i := 0; i < s.NumFields(); i++ {
				if s.Field(i).Name() == fname {
					u.storeField(st, or.structT, s, i, or.base, u.freshVal(st, s.Field(i).Type(), "locked_"+fname))
				}
			}
			for _, g := range u.prog.specs.Ghosts {
				if g.TypeName == namedKey(or.structT) && g.Field == fname {
					_, gs := u.resolveType(g.GoType, g.PkgPath)
					u.storeLoc(st, fieldMapName(or.structT, fname), gs, or.base, u.ctx.FreshConst("locked_"+fname, gs))
				}
			}
		}
		env := &Env{u: u, st: st, old: st, vars: map[string]envVar{"self": {or.base, selfT}}, pkgPath: li.PkgPath, fvOverride: map[string]freeVarInfo{}}
		u.assume(st, u.evalBoolF(env, st, li.Clause.Expr))
		return
	}
	delete(st.held, heldKey)
	env := &Env{u: u, st: st, old: st, vars: map[string]envVar{"self": {or.base, selfT}}, pkgPath: li.PkgPath, fvOverride: map[string]freeVarInfo{}}
	u.addObl(st, "lockinv/unlock", "lock invariant of "+shortName(namedKey(or.structT))+"."+or.field+" holds at Unlock: "+li.Clause.Src, pos, u.evalBoolF(env, st, li.Clause.Expr))
}

// sprintfModel: fmt.Sprintf with a constant format made of literal text, %% and
// %s verbs only. When every operand is a string the result is the concatenation
// (left-associated, as `a + b + c` is) of the pieces; otherwise nothing is said.
func (u *Unit) sprintfModel(st *State, args []Val) (Val, bool) {
	if len(args) != 2 {
		return nil, false
	}
	ft, ok := args[0].(*Term)
	if !ok {
		return nil, false
	}
	format, ok := u.ctx.StrLitTable()[ft.S]
	if !ok {
		return nil, false
	}
	sl, ok := args[1].(*Term)
	if !ok || sl.Sort != SSlice {
		return nil, false
	}
	type piece struct {
		lit  string
		arg  int
		verb byte
	}
	var pieces []piece
	lit := ""
	nargs := 0
	next := 0
	for i := 0; i < len(format); i++ {
		if format[i] != '%' {
			lit += string(format[i])
			continue
		}
		if i+1 >= len(format) {
			return nil, false
		}
		i++
		if format[i] == '[' {
			// explicit argument index: %[n]d uses operand n, later verbs go on from n+1
			j := i + 1
			n := 0
			for j < len(format) && format[j] >= '0' && format[j] <= '9' {
				n = n*10 + int(format[j]-'0')
				j++
			}
			if j+1 >= len(format) || format[j] != ']' || n < 1 {
				return nil, false
			}
			next = n - 1
			i = j + 1
		}
		switch format[i] {
		case '%':
			lit += "%"
		case 's', 'd', 'f':
			if lit != "" {
				pieces = append(pieces, piece{lit: lit, arg: -1})
				lit = ""
			}
			pieces = append(pieces, piece{arg: next, verb: format[i]})
			next++
			if next > nargs {
				nargs = next
			}
		default:
			return nil, false
		}
	}
	if lit != "" {
		pieces = append(pieces, piece{lit: lit, arg: -1})
	}
	if nargs == 0 || len(pieces) == 0 {
		return nil, false
	}
	u.ifacePrelude()
	strT := types.Typ[types.String]
	strTag := u.typeTag(strT)
	unboxStr := u.ctx.Func("unbox!"+typeKey(strT), []Sort{SIface}, SStr)
	// %d of an integer and %f of a float64 are rendered by uninterpreted functions
	// of the (mathematical) value: fmtd / fmtf. Integer operands of every width map
	// to fmtd of their value; the operand's dynamic type is one of the integer tags.
	fmtd := u.ctx.Func("fmtd", []Sort{SInt}, SStr)
	fmtf := u.ctx.Func("fmtf", []Sort{SReal}, SStr)
	var cat, catLen *Term
	conds := []*Term{Eq(slen(sl), IntLit(int64(nargs)))}
	for _, pc := range pieces {
		var t *Term
		if pc.arg < 0 {
			t = u.ctx.StrLit(pc.lit)
		} else {
			b := u.loadLoc(st, elemMapName(SIface), SIface, mkptr(sarr(sl), Eidx(soff(sl), IntLit(int64(pc.arg)))))
			switch pc.verb {
			case 's':
				conds = append(conds, Eq(App(SInt, "itag", b), strTag))
				t = App(SStr, unboxStr, b)
			case 'd':
				var alts []*Term
				var val *Term
				for _, bt := range []types.Type{types.Typ[types.Int], types.Typ[types.Int64], types.Typ[types.Int32], types.Typ[types.Uint64], types.Typ[types.Uint32], types.Typ[types.Uint16], types.Typ[types.Uint8], types.Typ[types.Int16], types.Typ[types.Int8], types.Typ[types.Uint]} {
					srt, _ := u.sortOf(bt)
					if srt != SInt {
						continue
					}
					ub := u.ctx.Func("unbox!"+typeKey(bt), []Sort{SIface}, SInt)
					is := Eq(App(SInt, "itag", b), u.typeTag(bt))
					alts = append(alts, is)
					if val == nil {
						val = App(SInt, ub, b)
					} else {
						val = Ite(is, App(SInt, ub, b), val)
					}
				}
				if val == nil {
					return nil, false
				}
				conds = append(conds, Or(alts...))
				t = App(SStr, fmtd, val)
			case 'f':
				ft64 := types.Typ[types.Float64]
				ub := u.ctx.Func("unbox!"+typeKey(ft64), []Sort{SIface}, SReal)
				conds = append(conds, Eq(App(SInt, "itag", b), u.typeTag(ft64)))
				t = App(SStr, fmtf, App(SReal, ub, b))
			}
		}
		if cat == nil {
			cat, catLen = t, App(SInt, "strlen", t)
		} else {
			cat = App(SStr, "strcat", cat, t)
			catLen = Add(catLen, App(SInt, "strlen", t))
		}
	}
	r := u.ctx.FreshConst("sprintf", SStr)
	u.assume(st, Ge(App(SInt, "strlen", r), IntLit(0)))
	u.assume(st, Implies(And(conds...), And(Eq(r, cat), Eq(App(SInt, "strlen", r), catLen))))
	return r, true
}

// byteView: unsafe.Slice((*byte)(unsafe.Pointer(&x)), n) for an 8-byte integer
// variable x: a snapshot of the little-endian bytes of x (amd64/arm64 layout;
// later writes to x are not reflected - the views in this code base are read at
// once). Bytes beyond the variable are unconstrained.
func (u *Unit) byteView(fr *Frame, st *State, c *ssa.CallCommon, n *Term) (Val, bool) {
	outer, ok := c.Args[0].(*ssa.Convert)
	if !ok {
		return nil, false
	}
	inner, ok := outer.X.(*ssa.Convert)
	if !ok {
		return nil, false
	}
	if pe := ptrElem(outer.Type()); pe == nil || !types.Identical(pe.Underlying(), types.Typ[types.Uint8]) {
		return nil, false
	}
	srcElem := ptrElem(inner.X.Type())
	if srcElem == nil {
		return nil, false
	}
	b, ok := srcElem.Underlying().(*types.Basic)
	if !ok || (b.Kind() != types.Int64 && b.Kind() != types.Uint64) {
		return nil, false
	}
	p, ok := u.val(fr, st, inner.X).(*Term)
	if !ok || p.Sort != SPtr {
		return nil, false
	}
	x, ok := u.loadVal(st, srcElem, p).(*Term)
	if !ok {
		return nil, false
	}
	bsort, _ := u.sortOf(types.Typ[types.Uint8])
	var bytes []*Term
	switch {
	case x.Sort == SInt && bsort == SInt:
		// the two's complement value m of x and its base-256 digits, introduced as
		// named constants with their defining linear equations (q_k = 256*q_{k+1} + b_k,
		// 0 <= b_k <= 255, q_8 = 0) instead of div/mod terms the solvers cannot chain
		m := u.ctx.Define("u64", Ite(Lt(x, IntLit(0)), Add(x, &Term{"18446744073709551616", SInt}), x))
		u.assume(st, And(Ge(m, IntLit(0)), Lt(m, &Term{"18446744073709551616", SInt})))
		q := m
		for k := 0; k < 8; k++ {
			bk := u.ctx.FreshConst("byte", SInt)
			var qn *Term
			if k == 7 {
				qn = IntLit(0)
			} else {
				qn = u.ctx.FreshConst("quot", SInt)
			}
			u.assume(st, And(Eq(q, Add(Mul(IntLit(256), qn), bk)), Le(IntLit(0), bk), Le(bk, IntLit(255)), Ge(qn, IntLit(0))))
			bytes = append(bytes, bk)
			q = qn
		}
	case x.Sort == SBV64 && bsort == SBV8:
		for k := 0; k < 8; k++ {
			bytes = append(bytes, &Term{fmt.Sprintf("((_ extract %d %d) %s)", 8*k+7, 8*k, x.S), SBV8})
		}
	default:
		return nil, false
	}
	ref := u.newRef(st, "byteview")
	name := elemMapName(bsort)
	hm := u.heapGet(st, name, bsort)
	arr := u.ctx.FreshConst("byteview_arr", ArrSort(SInt, bsort))
	var cur *Term = arr
	for k, bt := range bytes {
		cur = Store(cur, IntLit(int64(k)), bt)
	}
	st.heap[name] = u.ctx.Define(name, Store(hm, ref, cur))
	u.note("unsafe.Slice over an 8-byte integer variable: little-endian snapshot of its bytes")
	return u.ctx.Define("byteview", mkslice(ref, IntLit(0), n, n)), true
}

// atCallChecks: the "at <callee>" assertions of the function being executed.
func (u *Unit) atCallChecks(fr *Frame, st *State, c *ssa.CallCommon, fn Val, args []Val, pos token.Pos) {
	if fr.contract == nil || len(fr.contract.AtCalls) == 0 {
		return
	}
	var key string
	switch {
	case c.IsInvoke():
		key = ifaceMethodKey(c)
	default:
		switch f := fn.(type) {
		case *FnVal:
			key = funcKey(f.Fn)
		case *BoundVal:
			key = funcKey(f.Fn)
		case *ClosureVal:
			key = funcKey(f.Fn)
		default:
			return
		}
	}
	for _, at := range fr.contract.AtCalls {
		if strings.HasSuffix(at.Callee, "$") {
			// "name$": the callee name ends here (Write$ does not match WriteHeader)
			if !strings.HasSuffix(key, strings.TrimSuffix(at.Callee, "$")) {
				continue
			}
		} else if !strings.Contains(key, at.Callee) {
			continue
		}
		label := at.Clause.Label
		if label == "" {
			label = "1"
		}
		u.counters["at@"+at.Callee+"#"+label]++
		name := fmt.Sprintf("at@%s#%s/site%d", at.Callee, label, u.counters["at@"+at.Callee+"#"+label])
		env := u.envFor(fr, st, u.entry, nil)
		env.scopeTolerant = true
		// the call's arguments by position: arg0, arg1, ... (receiver of a method call: recvarg)
		if env.bound == nil {
			env.bound = map[string]envVar{}
		}
		explicit := args
		if !c.IsInvoke() && c.Signature().Recv() != nil && len(args) > 0 {
			env.bound["recvarg"] = envVar{args[0], c.Signature().Recv().Type()}
			explicit = args[1:]
		}
		ps := c.Signature().Params()
		for k, a := range explicit {
			var t types.Type
			if k < ps.Len() {
				t = ps.At(k).Type()
			}
			env.bound[fmt.Sprintf("arg%d", k)] = envVar{a, t}
		}
		// a clause that names a local variable declared later than this call site says
		// nothing about this site (it must apply to at least one site of the unit)
		goal, inScope := func() (g *Term, ok bool) {
			defer func() {
				if r := recover(); r != nil {
					if _, is := r.(notInScope); is {
						g, ok = nil, false
						return
					}
					panic(r)
				}
			}()
			return u.evalBoolF(env, st, at.Clause.Expr), true
		}()
		if u.atApplied == nil {
			u.atApplied = map[string]int{}
		}
		if !inScope {
			u.counters["at@"+at.Callee+"#"+label]--
			u.atApplied[at.Callee+"#"+label] += 0
			continue
		}
		u.atApplied[at.Callee+"#"+label]++
		u.addOblNamed(st, "at", name, "at the call of "+shortName(key)+": "+at.Clause.Src, pos, goal)
	}
}

// aliasRenamedParams: the callee's contract may still use the parameter names of
// the reference tree; bind them to the parameters now at the same positions.
func (u *Unit) aliasRenamedParams(vars map[string]envVar, key string) {
	h, ok := u.prog.nameHints[key]
	fn := u.prog.funcs[key]
	if !ok || fn == nil || len(h.Params) != len(fn.Params) {
		return
	}
	for i, old := range h.Params {
		cur := fn.Params[i].Name()
		if old == cur {
			continue
		}
		if _, taken := vars[old]; taken {
			continue
		}
		if v, ok := vars[cur]; ok {
			vars[old] = v
		}
	}
}

// dispatchFuncVar: a call through a local func variable whose every assignment
// stores a named function or a capture-free closure. The call is executed once
// per candidate on a copy of the state, guarded by "the variable holds that
// function", and the outcomes are merged. A nil assignment (no case taken) is
// not a candidate: calling nil panics, which is not modelled here.
func (u *Unit) dispatchFuncVar(fr *Frame, st *State, c *ssa.CallCommon, fnT *Term, args []Val, pos token.Pos) (Val, bool) {
	ld, ok := c.Value.(*ssa.UnOp)
	if !ok || ld.Op != token.MUL || fnT.Sort != SFn {
		return nil, false
	}
	cell, ok := ld.X.(*ssa.Alloc)
	if !ok || cell.Referrers() == nil {
		return nil, false
	}
	var cands []*ssa.Function
	seen := map[*ssa.Function]bool{}
	for _, r := range *cell.Referrers() {
		s, isStore := r.(*ssa.Store)
		if !isStore {
			continue
		}
		if s.Addr != cell {
			return nil, false
		}
		switch v := s.Val.(type) {
		case *ssa.Function:
			if !seen[v] {
				seen[v] = true
				cands = append(cands, v)
			}
		case *ssa.MakeClosure:
			if len(v.Bindings) != 0 {
				return nil, false
			}
			f := v.Fn.(*ssa.Function)
			if !seen[f] {
				seen[f] = true
				cands = append(cands, f)
			}
		case *ssa.Const:
			if !v.IsNil() {
				return nil, false
			}
		default:
			return nil, false
		}
	}
	if len(cands) < 2 || len(cands) > 12 {
		return nil, false
	}
	fs := u.ctx.Func("fnstatic", []Sort{SFn}, SInt)
	var ins []incoming
	var conds []*Term
	var vals []Val
	for _, f := range cands {
		// make sure the candidate's value constant (and its identity axiom) exists
		if f.Parent() != nil {
			u.reifyFn(&ClosureVal{Fn: f})
		} else {
			u.reifyFn(&FnVal{Fn: f})
		}
		guard := Eq(App(SInt, fs, fnT), IntLit(int64(u.prog.fnID(f))))
		sc := st.clone()
		var r Val
		if f.Parent() != nil {
			r = u.inline(fr, sc, f, args, nil, pos)
		} else {
			r = u.callStatic(fr, sc, f, args, pos)
		}
		ins = append(ins, incoming{st: sc, cond: guard})
		conds = append(conds, guard)
		vals = append(vals, r)
	}
	u.note("call through a func variable dispatched over its assigned functions (a nil value is not modelled)")
	merged := u.mergeStates(ins)
	*st = *merged
	if vals[0] == nil {
		return nil, true
	}
	return u.mergeVals(conds, vals), true
}
