package main

// SMT term layer: terms are S-expression strings tagged with a sort.
// A Ctx accumulates an ordered list of commands (declarations, named
// definitions, axioms); an obligation refers to a prefix of that list.

import (
	"regexp"
	"fmt"
	"math/big"
	"sort"
	"strings"
)

type Sort string

const (
	SInt   Sort = "Int"
	SBool  Sort = "Bool"
	SReal  Sort = "Real"
	SStr   Sort = "Str"
	SPtr   Sort = "Ptr"
	SSlice Sort = "Slice"
	SIface Sort = "Iface"
	SRef   Sort = "Ref"
	SFn    Sort = "Fn"
	SBV64  Sort = "(_ BitVec 64)"
	SBV32  Sort = "(_ BitVec 32)"
	SBV8   Sort = "(_ BitVec 8)"
	SString Sort = "String" // SMT-LIB strings (strings smt mode)
)

func ArrSort(i, e Sort) Sort { return Sort("(Array " + string(i) + " " + string(e) + ")") }

// HeapSort is the sort of a heap map with element sort e: Ref -> Int -> e.
func HeapSort(e Sort) Sort { return ArrSort(SRef, ArrSort(SInt, e)) }

func (s Sort) IsBV() bool { return strings.HasPrefix(string(s), "(_ BitVec") }
func (s Sort) BVWidth() int {
	var w int
	fmt.Sscanf(string(s), "(_ BitVec %d)", &w)
	return w
}
func (s Sort) ElemOfArr() Sort {
	// "(Array I E)" -> E ; only used on sorts we built ourselves
	str := string(s)
	if !strings.HasPrefix(str, "(Array ") {
		return ""
	}
	body := str[len("(Array ") : len(str)-1]
	// index sort may itself be parenthesised
	depth := 0
	for i := 0; i < len(body); i++ {
		switch body[i] {
		case '(':
			depth++
		case ')':
			depth--
		case ' ':
			if depth == 0 {
				return Sort(body[i+1:])
			}
		}
	}
	return ""
}

type Term struct {
	S    string
	Sort Sort
}

func (t *Term) String() string { return t.S }

var (
	True  = &Term{"true", SBool}
	False = &Term{"false", SBool}
)

func mk(sort Sort, op string, args ...*Term) *Term {
	var b strings.Builder
	b.WriteByte('(')
	b.WriteString(op)
	for _, a := range args {
		b.WriteByte(' ')
		b.WriteString(a.S)
	}
	b.WriteByte(')')
	return &Term{b.String(), sort}
}

func IntLit(n int64) *Term {
	if n < 0 {
		// avoid overflow on MinInt64
		bi := big.NewInt(n)
		bi.Neg(bi)
		return &Term{"(- " + bi.String() + ")", SInt}
	}
	return &Term{fmt.Sprint(n), SInt}
}
func BigLit(n *big.Int) *Term {
	if n.Sign() < 0 {
		m := new(big.Int).Neg(n)
		return &Term{"(- " + m.String() + ")", SInt}
	}
	return &Term{n.String(), SInt}
}
func RealLit(r *big.Rat) *Term {
	neg := r.Sign() < 0
	a := new(big.Rat).Abs(r)
	s := a.Num().String() + ".0"
	if !a.IsInt() {
		s = "(/ " + a.Num().String() + ".0 " + a.Denom().String() + ".0)"
	}
	if neg {
		s = "(- " + s + ")"
	}
	return &Term{s, SReal}
}
func BVLit(n *big.Int, w int) *Term {
	m := new(big.Int).Set(n)
	mod := new(big.Int).Lsh(big.NewInt(1), uint(w))
	m.Mod(m, mod)
	return &Term{fmt.Sprintf("(_ bv%s %d)", m.String(), w), Sort(fmt.Sprintf("(_ BitVec %d)", w))}
}
func BoolLit(b bool) *Term {
	if b {
		return True
	}
	return False
}

func Not(a *Term) *Term {
	switch a {
	case True:
		return False
	case False:
		return True
	}
	if strings.HasPrefix(a.S, "(not ") {
		return &Term{a.S[5 : len(a.S)-1], SBool}
	}
	return mk(SBool, "not", a)
}
func And(as ...*Term) *Term {
	var out []*Term
	for _, a := range as {
		if a == nil || a == True || a.S == "true" {
			continue
		}
		if a == False || a.S == "false" {
			return False
		}
		out = append(out, a)
	}
	switch len(out) {
	case 0:
		return True
	case 1:
		return out[0]
	}
	return mk(SBool, "and", out...)
}
func Or(as ...*Term) *Term {
	var out []*Term
	for _, a := range as {
		if a == nil || a == False || a.S == "false" {
			continue
		}
		if a == True || a.S == "true" {
			return True
		}
		out = append(out, a)
	}
	switch len(out) {
	case 0:
		return False
	case 1:
		return out[0]
	}
	return mk(SBool, "or", out...)
}
func Implies(a, b *Term) *Term {
	if a.S == "true" {
		return b
	}
	if a.S == "false" || b.S == "true" {
		return True
	}
	return mk(SBool, "=>", a, b)
}
func Eq(a, b *Term) *Term {
	if a.S == b.S {
		return True
	}
	if a.Sort != b.Sort {
		a, b = coerce(a, b)
	}
	return mk(SBool, "=", a, b)
}
func Ite(c, a, b *Term) *Term {
	if c.S == "true" {
		return a
	}
	if c.S == "false" {
		return b
	}
	if a.S == b.S {
		return a
	}
	if a.Sort != b.Sort {
		a, b = coerce(a, b)
	}
	return mk(a.Sort, "ite", c, a, b)
}

// coerce reconciles Int/Real operands.
func coerce(a, b *Term) (*Term, *Term) {
	if a.Sort == SInt && b.Sort == SReal {
		return ToReal(a), b
	}
	if a.Sort == SReal && b.Sort == SInt {
		return a, ToReal(b)
	}
	return a, b
}
func ToReal(a *Term) *Term {
	if a.Sort == SReal {
		return a
	}
	return mk(SReal, "to_real", a)
}
func ToInt(a *Term) *Term {
	if a.Sort == SInt {
		return a
	}
	// Go truncates toward zero
	return Ite(mk(SBool, ">=", a, &Term{"0.0", SReal}), mk(SInt, "to_int", a), mk(SInt, "-", mk(SInt, "to_int", mk(SReal, "-", a))))
}

func arith(op string, a, b *Term) *Term {
	if a.Sort != b.Sort {
		a, b = coerce(a, b)
	}
	return mk(a.Sort, op, a, b)
}
func Add(a, b *Term) *Term {
	if a.Sort == SInt && b.S == "0" {
		return a
	}
	if b.Sort == SInt && a.S == "0" {
		return b
	}
	return arith("+", a, b)
}
func Sub(a, b *Term) *Term {
	if b.S == "0" && a.Sort == SInt {
		return a
	}
	return arith("-", a, b)
}
func Mul(a, b *Term) *Term { return arith("*", a, b) }
func Neg(a *Term) *Term    { return mk(a.Sort, "-", a) }
func cmp(op string, a, b *Term) *Term {
	if a.Sort != b.Sort {
		a, b = coerce(a, b)
	}
	return mk(SBool, op, a, b)
}
func Lt(a, b *Term) *Term { return cmp("<", a, b) }
func Le(a, b *Term) *Term { return cmp("<=", a, b) }
func Gt(a, b *Term) *Term { return cmp(">", a, b) }
func Ge(a, b *Term) *Term { return cmp(">=", a, b) }

// Eidx: position of element i of a slice with offset off. An uninterpreted
// symbol (defined as off+i by a prelude axiom) so that quantified facts about
// "a[i]" have a pattern without interpreted arithmetic.
func Eidx(off, i *Term) *Term {
	// two literals: the position is a literal (distinct constant positions of a
	// fresh array are then distinct without instantiating the prelude axiom)
	if a, ok := smallLit(off.S); ok {
		if b, ok := smallLit(i.S); ok {
			return IntLit(a + b)
		}
	}
	return App(SInt, "sidx", off, i)
}

func smallLit(s string) (int64, bool) {
	if len(s) == 0 || len(s) > 9 {
		return 0, false
	}
	var n int64
	for _, c := range s {
		if c < '0' || c > '9' {
			return 0, false
		}
		n = n*10 + int64(c-'0')
	}
	return n, true
}

func Select(arr, idx *Term) *Term {
	return mk(arr.Sort.ElemOfArr(), "select", arr, idx)
}
func Store(arr, idx, v *Term) *Term { return mk(arr.Sort, "store", arr, idx, v) }
func App(sort Sort, fn string, args ...*Term) *Term {
	if len(args) == 0 {
		return &Term{fn, sort}
	}
	return mk(sort, fn, args...)
}

type Binder struct {
	Name string
	Sort Sort
}

func Forall(bs []Binder, body *Term, pats ...*Term) *Term { return quant("forall", bs, body, pats) }
func Exists(bs []Binder, body *Term) *Term                 { return quant("exists", bs, body, nil) }
func quant(q string, bs []Binder, body *Term, pats []*Term) *Term {
	if len(bs) == 0 || body.S == "true" || body.S == "false" {
		return body
	}
	var b strings.Builder
	b.WriteString("(" + q + " (")
	for i, x := range bs {
		if i > 0 {
			b.WriteByte(' ')
		}
		fmt.Fprintf(&b, "(%s %s)", x.Name, x.Sort)
	}
	b.WriteString(") ")
	if len(pats) > 0 {
		b.WriteString("(! " + body.S + " :pattern (")
		for i, p := range pats {
			if i > 0 {
				b.WriteByte(' ')
			}
			b.WriteString(p.S)
		}
		b.WriteString("))")
	} else {
		b.WriteString(body.S)
	}
	b.WriteString(")")
	return &Term{b.String(), SBool}
}

// ---------------------------------------------------------------------------

// Ctx: one per verification unit.
type Ctx struct {
	cmds     []string
	declared map[string]bool
	n        int
	usesStrings bool
	usesLambda  bool
	strLits  map[string]*Term
}

const prelude = `(declare-sort Ref 0)
(declare-sort Str 0)
(declare-sort Iface 0)
(declare-sort Fn 0)
(declare-datatypes ((Ptr 0)) (((mkptr (parr Ref) (pidx Int)))))
(declare-datatypes ((Slice 0)) (((mkslice (sarr Ref) (soff Int) (slen Int) (scap Int)))))
(declare-fun birth (Ref) Int)
(declare-fun sidx (Int Int) Int)
(assert (forall ((o Int) (i Int)) (! (= (sidx o i) (+ o i)) :pattern ((sidx o i)))))
(declare-const nilref Ref)
(assert (= (birth nilref) (- 1)))
(declare-const nil_Iface Iface)
(declare-const nil_Fn Fn)
(declare-fun itag (Iface) Int)
(declare-fun strlen (Str) Int)
(declare-fun strcat (Str Str) Str)
(declare-fun strlit (Int) Str)
(declare-fun strlit_id (Str) Int)
(define-fun tdiv ((a Int) (b Int)) Int (ite (> b 0) (ite (>= a 0) (div a b) (- (div (- a) b))) (ite (>= a 0) (- (div a (- b))) (div (- a) (- b)))))
(define-fun tmod ((a Int) (b Int)) Int (ite (>= a 0) (mod a (ite (> b 0) b (- b))) (- (mod (- a) (ite (> b 0) b (- b))))))
`

const strAxioms = `(assert (forall ((s Str)) (! (>= (strlen s) 0) :pattern ((strlen s)))))
(assert (forall ((a Str) (b Str)) (! (= (strlen (strcat a b)) (+ (strlen a) (strlen b))) :pattern ((strcat a b)))))
(assert (forall ((i Int)) (! (= (strlit_id (strlit i)) i) :pattern ((strlit i)))))
`

var (
	NilPtr   = &Term{"(mkptr nilref 0)", SPtr}
	NilSlice = &Term{"(mkslice nilref 0 0 0)", SSlice}
	NilIface = &Term{"nil_Iface", SIface}
	NilRef   = &Term{"nilref", SRef}
	NilFn    = &Term{"nil_Fn", SFn}
)

func NewCtx() *Ctx {
	return &Ctx{declared: map[string]bool{}, strLits: map[string]*Term{}}
}

func (c *Ctx) Mark() int { return len(c.cmds) }

func (c *Ctx) Fresh(prefix string) string {
	c.n++
	return fmt.Sprintf("%s!%d", sanitize(prefix), c.n)
}

func sanitize(s string) string {
	var b strings.Builder
	for _, r := range s {
		switch {
		case r >= 'a' && r <= 'z', r >= 'A' && r <= 'Z', r >= '0' && r <= '9', r == '_', r == '.', r == '$', r == '!':
			b.WriteRune(r)
		default:
			b.WriteByte('_')
		}
	}
	return b.String()
}

// Const declares (once) an uninterpreted constant.
func (c *Ctx) Const(name string, sort Sort) *Term {
	name = sanitize(name)
	if !c.declared[name] {
		c.declared[name] = true
		c.cmds = append(c.cmds, fmt.Sprintf("(declare-const %s %s)", name, sort))
	}
	return &Term{name, sort}
}

func (c *Ctx) FreshConst(prefix string, sort Sort) *Term {
	return c.Const(c.Fresh(prefix), sort)
}

// Func declares (once) an uninterpreted function.
func (c *Ctx) Func(name string, args []Sort, ret Sort) string {
	name = sanitize(name)
	if !c.declared[name] {
		c.declared[name] = true
		as := make([]string, len(args))
		for i, a := range args {
			as[i] = string(a)
		}
		c.cmds = append(c.cmds, fmt.Sprintf("(declare-fun %s (%s) %s)", name, strings.Join(as, " "), ret))
	}
	return name
}

// DeclareSort declares an opaque sort once.
func (c *Ctx) DeclareSort(name string) Sort {
	name = sanitize(name)
	if !c.declared["sort:"+name] {
		c.declared["sort:"+name] = true
		c.cmds = append(c.cmds, fmt.Sprintf("(declare-sort %s 0)", name))
	}
	return Sort(name)
}

// Define names a term (keeps later terms small).
func (c *Ctx) Define(prefix string, t *Term) *Term {
	if len(t.S) < 48 {
		return t
	}
	name := c.Fresh(prefix)
	c.declared[name] = true
	c.cmds = append(c.cmds, fmt.Sprintf("(define-fun %s () %s %s)", name, t.Sort, t.S))
	return &Term{name, t.Sort}
}

// Name introduces a fresh constant equal to t (definitional assertion).
// Unlike Define, the solver sees an atomic symbol, which keeps ite/div terms
// out of quantifier patterns.
func (c *Ctx) Name(prefix string, t *Term) *Term {
	name := c.Fresh(prefix)
	c.declared[name] = true
	c.cmds = append(c.cmds, fmt.Sprintf("(declare-const %s %s)", name, t.Sort))
	c.cmds = append(c.cmds, fmt.Sprintf("(assert (= %s %s))", name, t.S))
	return &Term{name, t.Sort}
}

func (c *Ctx) DefineFun(name string, params []Binder, ret Sort, body *Term) {
	name = sanitize(name)
	if c.declared[name] {
		return
	}
	c.declared[name] = true
	ps := make([]string, len(params))
	for i, p := range params {
		ps[i] = fmt.Sprintf("(%s %s)", p.Name, p.Sort)
	}
	c.cmds = append(c.cmds, fmt.Sprintf("(define-fun %s (%s) %s %s)", name, strings.Join(ps, " "), ret, body.S))
}

func (c *Ctx) Axiom(t *Term) {
	if t.S == "true" {
		return
	}
	c.cmds = append(c.cmds, "(assert "+t.S+")"+axiomMark)
}

const axiomMark = " ;axiom"

var specSymRe = regexp.MustCompile(`spec![A-Za-z0-9_]+`)

func (c *Ctx) Raw(cmd string) { c.cmds = append(c.cmds, cmd) }

// StrLit returns the term of a string literal (uninterpreted-Str mode).
// Distinct literals are distinct because strlit is injective (strlit_id).
func (c *Ctx) StrLit(s string) *Term {
	if t, ok := c.strLits[s]; ok {
		return t
	}
	id := len(c.strLits)
	t := &Term{fmt.Sprintf("strlit!%d", id), SStr}
	c.cmds = append(c.cmds, fmt.Sprintf("(declare-const %s Str) ; %q", t.S, trunc(s, 40)))
	c.cmds = append(c.cmds, fmt.Sprintf("(assert (= (strlen %s) %d))", t.S, len(s)))
	// distinct from every earlier literal
	for _, o := range c.strLits {
		c.cmds = append(c.cmds, fmt.Sprintf("(assert (not (= %s %s)))", t.S, o.S))
	}
	c.strLits[s] = t
	return t
}

func (c *Ctx) StrLitTable() map[string]string {
	out := map[string]string{}
	for s, t := range c.strLits {
		out[t.S] = s
	}
	return out
}

func trunc(s string, n int) string {
	if len(s) > n {
		return s[:n] + "…"
	}
	return s
}

// Query renders a complete SMT-LIB script for the command prefix [0:mark),
// asserting hyps and the negation of goal.
func (c *Ctx) Query(mark int, hyps []*Term, goal *Term, getValues []string) string {
	var b strings.Builder
	b.WriteString("(set-option :produce-models true)\n(set-logic ALL)\n")
	b.WriteString(prelude)
	// quantified axioms over spec functions are only included when the rest of the query
	// mentions one of their spec functions: an unused quantifier turns the vacuity covers
	// (expected sat) into "unknown" and slows every query of the unit
	var rest strings.Builder
	for _, cmd := range c.cmds[:mark] {
		if !strings.HasSuffix(cmd, axiomMark) && !strings.HasPrefix(cmd, "(declare-fun ") {
			rest.WriteString(cmd)
			rest.WriteByte('\n')
		}
	}
	for _, h := range hyps {
		rest.WriteString(h.S)
		rest.WriteByte('\n')
	}
	if goal != nil {
		rest.WriteString(goal.S)
	}
	restS := rest.String()
	var body strings.Builder
	for _, cmd := range c.cmds[:mark] {
		if strings.HasSuffix(cmd, axiomMark) {
			used := false
			for _, sym := range specSymRe.FindAllString(cmd, -1) {
				if strings.Contains(restS, sym+" ") || strings.Contains(restS, sym+")") {
					used = true
					break
				}
			}
			if !used && specSymRe.MatchString(cmd) {
				continue
			}
		}
		body.WriteString(cmd)
		body.WriteByte('\n')
	}
	bs := body.String()
	usesStr := strings.Contains(bs, "(strlen ") || strings.Contains(bs, "(strcat ") || strings.Contains(bs, "(strlit ")
	for _, h := range hyps {
		if strings.Contains(h.S, "(strlen ") || strings.Contains(h.S, "(strlit ") || strings.Contains(h.S, "(strcat ") {
			usesStr = true
		}
	}
	if goal != nil && (strings.Contains(goal.S, "(strlen ") || strings.Contains(goal.S, "(strlit ") || strings.Contains(goal.S, "(strcat ")) {
		usesStr = true
	}
	_ = usesStr
	b.WriteString(bs)
	for _, h := range hyps {
		if h.S != "true" {
			b.WriteString("(assert " + h.S + ")\n")
		}
	}
	if goal != nil {
		b.WriteString("(assert (not " + goal.S + "))\n")
	}
	b.WriteString("(check-sat)\n")
	if len(getValues) > 0 {
		b.WriteString("(get-value (" + strings.Join(getValues, " ") + "))\n")
	}
	return b.String()
}

func sortedKeys[V any](m map[string]V) []string {
	ks := make([]string, 0, len(m))
	for k := range m {
		ks = append(ks, k)
	}
	sort.Strings(ks)
	return ks
}
