package main

// Verification units: symbolic execution of one ssa.Function against its
// contract; loops are cut at invariants; every proof obligation becomes one
// SMT query over a prefix of the unit's command list.

import (
	"fmt"
	"go/token"
	"go/types"
	"sort"
	"strings"

	"golang.org/x/tools/go/packages"
	"golang.org/x/tools/go/ssa"
)

type Program struct {
	fset    *token.FileSet
	pkgs    map[string]*packages.Package // by path
	ssaProg *ssa.Program
	ssaPkgs map[string]*ssa.Package
	specs   *Specs
	funcs   map[string]*ssa.Function // by full name
	notes   []string
	typesPkgs map[string]*types.Package
	typeTags  map[string]int
	fnIDs     map[string]int
	nameHints map[string]nameHints // reference-tree names of parameters and locals, per unit
}

type Obligation struct {
	Name    string // unit-relative, e.g. post#1, inv#1.2/preserved, panic/index#3
	Kind    string
	Unit    string
	Pos     string
	Desc    string
	Hyp     *Term
	Goal    *Term
	Mark    int
	ctx     *Ctx
	Cover   bool // a vacuity cover: expected SAT
	unit    *Unit
	Status  string // discharged | failed | undecided | cover-ok | cover-failed
	Backend string
	Ms      int64
	Model   string
	Output  string
	Known   string
}

type loopInfo struct {
	header  *ssa.BasicBlock
	blocks  map[*ssa.BasicBlock]bool
	ordinal int
	spec    *LoopSpec
	cells   []*ssa.Alloc // local cells stored inside
	impure  bool         // contains a heap store or a non-pure call
	// runtime
	variant0  *Term
	exitEdges int
	head      *State // state at the loop head of the iteration being executed (for step clauses)
	frame     *FrameSet
	backEdges int
}

type FrameSet struct {
	all   bool
	items []frameItem
	since *Term // objects born at/after this are always writable
	why   string
}
type frameItem struct {
	Map    string
	Elem   Sort
	Ptr    *Term // nil: whole map
	AllIdx bool  // every index of parr(Ptr)
	Src    string
}

type Frame struct {
	id       int
	fn       *ssa.Function
	regs     map[ssa.Value]Val
	freeVars []Val
	params   []Val
	contract *Contract
	loops    []*loopInfo
	loopOf   map[*ssa.BasicBlock][]*loopInfo // enclosing loops, outermost first
	headers  map[*ssa.BasicBlock]*loopInfo
	depth    int
	parent   *Frame
	callPos  token.Pos
}

type Unit struct {
	atApplied  map[string]int // "at" clauses: number of call sites each was evaluated at
	prog       *Program
	fn         *ssa.Function
	contract   *Contract
	ctx        *Ctx
	name       string
	bvMode     bool
	smtStrings bool
	checks     map[string]bool
	obls       []*Obligation
	counters   map[string]int
	mapSorts   map[string]Sort
	entry      *State
	entryVals  map[string]Val
	paramTypes map[string]types.Type
	frameID    int
	frames     []*FrameSet // active frame scopes (function level first)
	notes      map[string]bool
	uncontractedCalls map[string]bool
	addrMaps          map[string]bool // field maps that hold the address of a struct field somewhere
	lockedInvs        map[string]bool // lock invariants ("Type.mutex") whose mutex this unit acquires somewhere
	pendingLock       []pendingLockObl
	externsUsed  map[string]bool
	rawSorts     map[string]Sort
	freeVarPtrs  map[string]freeVarInfo
	axiomsUsed   []string
	fvCall       map[string]freeVarInfo
	divs         []divRec
	subOrigins   map[string]subOrigin
	specFnsDone  map[string]bool
	pkg        *packages.Package
	errs       []string
	curFrame   *Frame
	ghostCache map[string]*GhostField
	lemma      *Lemma
}

func (u *Unit) noteHavoc(why string) {
	u.notes["havoc: "+why] = true
}
func (u *Unit) note(s string) { u.notes[s] = true }

func (p *Program) NewUnit(fn *ssa.Function, c *Contract) *Unit {
	u := &Unit{prog: p, fn: fn, contract: c, ctx: NewCtx(), counters: map[string]int{}, mapSorts: map[string]Sort{},
		entryVals: map[string]Val{}, paramTypes: map[string]types.Type{}, notes: map[string]bool{},
		uncontractedCalls: map[string]bool{}, addrMaps: map[string]bool{}, lockedInvs: map[string]bool{}, subOrigins: map[string]subOrigin{}, rawSorts: map[string]Sort{}, freeVarPtrs: map[string]freeVarInfo{}, externsUsed: map[string]bool{}, specFnsDone: map[string]bool{}, checks: map[string]bool{}}
	if fn != nil {
		u.name = funcKey(fn)
		if fn.Pkg != nil {
			u.pkg = p.pkgs[fn.Pkg.Pkg.Path()]
		}
	}
	for _, k := range []string{"index", "div", "make", "slice", "assert", "panic"} {
		u.checks[k] = true
	}
	if c != nil {
		if c.Flags["arith"] == "bv" {
			u.bvMode = true
		}
		if c.Flags["strings"] == "smt" {
			u.smtStrings = true
		}
		if v, ok := c.Flags["checks"]; ok {
			for _, k := range strings.Split(v, ",") {
				if strings.HasPrefix(k, "-") {
					delete(u.checks, k[1:])
				} else {
					u.checks[strings.TrimPrefix(k, "+")] = true
				}
			}
		}
		if c.Flags["may-panic"] != "" {
			u.checks = map[string]bool{}
		}
	}
	return u
}

// funcKey: canonical full name of an ssa.Function (generic origin for instances).
func funcKey(fn *ssa.Function) string {
	if o := fn.Origin(); o != nil {
		fn = o
	}
	if fn.Parent() != nil {
		// closure: Parent$N
		return funcKey(fn.Parent()) + strings.TrimPrefix(fn.Name(), fn.Parent().Name())
	}
	s := fn.RelString(nil)
	return s
}

func (u *Unit) addObl(st *State, kind, desc string, pos token.Pos, goal *Term) *Obligation {
	return u.addOblNamed(st, kind, "", desc, pos, goal)
}

func (u *Unit) addOblNamed(st *State, kind, label, desc string, pos token.Pos, goal *Term) *Obligation {
	name := label
	if name == "" {
		u.counters[kind]++
		name = fmt.Sprintf("%s#%d", kind, u.counters[kind])
	}
	if goal.S == "true" {
		// trivially discharged; still recorded so that counts are stable
		o := &Obligation{Name: name, Kind: kind, Unit: u.name, Pos: u.posString(pos), Desc: desc, Hyp: True, Goal: True, ctx: u.ctx, unit: u, Status: "discharged", Backend: "syntactic"}
		u.obls = append(u.obls, o)
		return o
	}
	pc := u.ctx.Define("pc", st.pc)
	o := &Obligation{Name: name, Kind: kind, Unit: u.name, Pos: u.posString(pos), Desc: desc, Hyp: pc, Goal: goal, Mark: u.ctx.Mark(), ctx: u.ctx, unit: u}
	u.obls = append(u.obls, o)
	// after asserting, the fact may be assumed downstream (a structural obligation that
	// is plainly false is not: assuming it would make everything after it vacuous)
	if goal.S != "false" {
		u.assume(st, goal)
	}
	return o
}

func (u *Unit) addCover(st *State, name string, pos token.Pos, extra *Term) {
	pc := u.ctx.Define("pc", And(st.pc, extra))
	o := &Obligation{Name: name, Kind: "cover", Unit: u.name, Pos: u.posString(pos), Desc: "vacuity cover: must be satisfiable", Hyp: pc, Goal: nil, Mark: u.ctx.Mark(), ctx: u.ctx, unit: u, Cover: true}
	u.obls = append(u.obls, o)
}

func (u *Unit) posString(p token.Pos) string {
	if !p.IsValid() {
		return ""
	}
	pp := u.prog.fset.Position(p)
	return fmt.Sprintf("%s:%d", strings.TrimPrefix(pp.Filename, "/repo/"), pp.Line)
}

// ---------------------------------------------------------------------------
// loops

func findLoops(fn *ssa.Function) ([]*loopInfo, map[*ssa.BasicBlock][]*loopInfo, map[*ssa.BasicBlock]*loopInfo) {
	headers := map[*ssa.BasicBlock]*loopInfo{}
	for _, b := range fn.Blocks {
		for _, s := range b.Succs {
			if s.Dominates(b) { // back edge b -> s
				li := headers[s]
				if li == nil {
					li = &loopInfo{header: s, blocks: map[*ssa.BasicBlock]bool{s: true}}
					headers[s] = li
				}
				// natural loop: nodes reaching b without passing s
				stack := []*ssa.BasicBlock{b}
				for len(stack) > 0 {
					x := stack[len(stack)-1]
					stack = stack[:len(stack)-1]
					if li.blocks[x] {
						continue
					}
					li.blocks[x] = true
					stack = append(stack, x.Preds...)
				}
			}
		}
	}
	var loops []*loopInfo
	for _, li := range headers {
		loops = append(loops, li)
	}
	// source order: by position of the header's first positioned instruction,
	// falling back to block index
	posOf := func(li *loopInfo) token.Pos {
		best := token.NoPos
		for b := range li.blocks {
			for _, in := range b.Instrs {
				if p := in.Pos(); p.IsValid() && (best == token.NoPos || p < best) {
					best = p
				}
			}
		}
		return best
	}
	sort.Slice(loops, func(i, j int) bool {
		pi, pj := posOf(loops[i]), posOf(loops[j])
		if pi != pj {
			return pi < pj
		}
		return loops[i].header.Index < loops[j].header.Index
	})
	for i, li := range loops {
		li.ordinal = i + 1
	}
	loopOf := map[*ssa.BasicBlock][]*loopInfo{}
	for _, b := range fn.Blocks {
		var enc []*loopInfo
		for _, li := range loops {
			if li.blocks[b] {
				enc = append(enc, li)
			}
		}
		// outermost first = larger loops first
		sort.SliceStable(enc, func(i, j int) bool { return len(enc[i].blocks) > len(enc[j].blocks) })
		loopOf[b] = enc
	}
	return loops, loopOf, headers
}

// rootAlloc: the Alloc an address is derived from by field / index selection.
func rootAlloc(v ssa.Value) *ssa.Alloc {
	for i := 0; i < 8; i++ {
		switch x := v.(type) {
		case *ssa.Alloc:
			return x
		case *ssa.IndexAddr:
			v = x.X
		case *ssa.FieldAddr:
			v = x.X
		default:
			return nil
		}
	}
	return nil
}

func isCellAlloc(a *ssa.Alloc) bool {
	refs := a.Referrers()
	if refs == nil {
		return false
	}
	for _, r := range *refs {
		switch r := r.(type) {
		case *ssa.Store:
			if r.Addr != a {
				return false
			}
		case *ssa.UnOp:
			if r.Op != token.MUL {
				return false
			}
		case *ssa.DebugRef:
		case *ssa.FieldAddr:
			// a private struct temporary: its fields are only read and written in place
			if r.X != a || !fieldAddrPrivate(r) {
				return false
			}
		default:
			return false
		}
	}
	return true
}

func fieldAddrPrivate(fa *ssa.FieldAddr) bool {
	if _, ok := ptrElem(fa.X.Type()).Underlying().(*types.Struct); !ok {
		return false
	}
	refs := fa.Referrers()
	if refs == nil {
		return false
	}
	for _, r := range *refs {
		switch r := r.(type) {
		case *ssa.Store:
			if r.Addr != fa {
				return false
			}
		case *ssa.UnOp:
			if r.Op != token.MUL {
				return false
			}
		case *ssa.DebugRef:
		default:
			return false
		}
	}
	return true
}

func (u *Unit) newFrame(fn *ssa.Function, parent *Frame) *Frame {
	u.frameID++
	fr := &Frame{id: u.frameID, fn: fn, regs: map[ssa.Value]Val{}, parent: parent}
	if parent != nil {
		fr.depth = parent.depth + 1
	}
	fr.loops, fr.loopOf, fr.headers = findLoops(fn)
	fr.contract = u.prog.specs.Contracts[funcKey(fn)]
	if fr.contract != nil {
		for k := range fr.contract.Loops {
			if k < 1 || k > len(fr.loops) {
				unsupp("contract of %s has a clause for loop %d but the function has %d loops", funcKey(fn), k, len(fr.loops))
			}
		}
	}
	for _, li := range fr.loops {
		if fr.contract != nil {
			li.spec = fr.contract.Loops[li.ordinal]
		}
		seen := map[*ssa.Alloc]bool{}
		for b := range li.blocks {
			for _, in := range b.Instrs {
				switch in := in.(type) {
				case *ssa.Store:
					if a, ok := in.Addr.(*ssa.Alloc); ok && isCellAlloc(a) {
						if !seen[a] {
							seen[a] = true
							li.cells = append(li.cells, a)
						}
					} else if ra := rootAlloc(in.Addr); ra != nil && li.blocks[ra.Block()] {
						// store into an object allocated inside the loop body (e.g. a varargs array)
					} else {
						li.impure = true
					}
				case *ssa.Call:
					if !u.isPureCall(in.Common()) {
						li.impure = true
					}
				case *ssa.Defer, *ssa.Go, *ssa.Send, *ssa.MapUpdate, *ssa.Select:
					li.impure = true
				case *ssa.UnOp:
					if in.Op == token.ARROW {
						li.impure = true
					}
				case *ssa.Alloc:
					if isCellAlloc(in) && !seen[in] {
						// a cell allocated inside the loop is re-initialised each iteration
					}
				}
			}
		}
		sort.Slice(li.cells, func(i, j int) bool { return li.cells[i].Pos() < li.cells[j].Pos() })
	}
	return fr
}

// isPureCall: builtin len/cap etc., calls declared pure, and calls to
// contracts with an explicit empty modifies clause.
func (u *Unit) isPureCall(c *ssa.CallCommon) bool {
	if b, ok := c.Value.(*ssa.Builtin); ok {
		switch b.Name() {
		case "len", "cap", "min", "max", "real", "imag", "print", "println", "append":
			// append allocates but writes no pre-existing object
			return true
		}
		return false
	}
	if fn := c.StaticCallee(); fn != nil {
		key := funcKey(fn)
		if u.prog.isPure(key) {
			return true
		}
		if ct := u.prog.specs.Contracts[key]; ct != nil && ct.HasModifies && len(ct.Modifies) == 0 && !ct.ModifiesAll {
			return true
		}
	}
	if c.IsInvoke() {
		key := ifaceMethodKey(c)
		if u.prog.isPure(key) {
			return true
		}
		if ct := u.prog.specs.Contracts[key]; ct != nil && ct.HasModifies && len(ct.Modifies) == 0 && !ct.ModifiesAll {
			return true
		}
	}
	return false
}

func (p *Program) isPure(key string) bool {
	for _, re := range p.specs.PureFns {
		if re.MatchString(key) {
			return true
		}
	}
	return p.isFunction(key)
}

func (p *Program) isFunction(key string) bool {
	for _, re := range p.specs.FuncFns {
		if re.MatchString(key) {
			return true
		}
	}
	return false
}

func ifaceMethodKey(c *ssa.CallCommon) string {
	t := c.Value.Type()
	return "(" + namedKey(t) + ")." + c.Method.Name()
}

// ---------------------------------------------------------------------------
// executing a function body

type incoming struct {
	st   *State
	cond *Term
	from *ssa.BasicBlock
}

type retInfo struct {
	st   *State
	vals []Val
}

// execBody symbolically executes fn's blocks from st0; returns the merged
// state at return and the result values.
func (u *Unit) execBody(fr *Frame, st0 *State) (*State, []Val) {
	fn := fr.fn
	if len(fn.Blocks) == 0 {
		unsupp("function %s has no body", fn)
	}
	prevFrame := u.curFrame
	u.curFrame = fr
	defer func() { u.curFrame = prevFrame }()

	order := topoOrder(fn)
	in := map[*ssa.BasicBlock][]incoming{}
	in[fn.Blocks[0]] = []incoming{{st0, True, nil}}
	var rets []retInfo

	for _, b := range order {
		ins := in[b]
		if len(ins) == 0 {
			continue
		}
		st := u.mergeStates(ins)
		delete(in, b)
		if li := fr.headers[b]; li != nil {
			u.enterLoop(fr, li, st)
		}
		// frame scopes for this block
		savedFrames := u.frames
		for _, li := range fr.loopOf[b] {
			if li.frame != nil {
				u.frames = append(u.frames, li.frame)
			}
		}
		term := false
		for _, instr := range b.Instrs {
			if st.dead {
				break
			}
			switch instr := instr.(type) {
			case *ssa.Jump:
				u.edge(fr, in, b, b.Succs[0], st, True)
				term = true
			case *ssa.If:
				c := u.term(fr, st, instr.Cond)
				u.edge(fr, in, b, b.Succs[0], st, c)
				u.edge(fr, in, b, b.Succs[1], st, Not(c))
				term = true
			case *ssa.Return:
				var vals []Val
				for _, r := range instr.Results {
					vals = append(vals, u.val(fr, st, r))
				}
				rets = append(rets, retInfo{st, vals})
				term = true
			case *ssa.Panic:
				if u.checks["panic"] {
					u.addObl(st, "panic/explicit", "explicit panic is unreachable", instr.Pos(), False)
				}
				term = true
			default:
				u.exec(fr, st, instr)
			}
			if term {
				break
			}
		}
		u.frames = savedFrames
	}
	if len(rets) == 0 {
		dead := st0.clone()
		dead.pc = False
		dead.dead = true
		var vals []Val
		res := fn.Signature.Results()
		for i := 0; i < res.Len(); i++ {
			vals = append(vals, u.zeroVal(res.At(i).Type()))
		}
		return dead, vals
	}
	var ins []incoming
	for _, r := range rets {
		ins = append(ins, incoming{r.st, True, nil})
	}
	out := u.mergeStates(ins)
	var vals []Val
	if n := len(rets[0].vals); n > 0 {
		conds := make([]*Term, len(rets))
		for i, r := range rets {
			conds[i] = r.st.guard
		}
		for k := 0; k < n; k++ {
			vs := make([]Val, len(rets))
			for i, r := range rets {
				vs[i] = r.vals[k]
			}
			vals = append(vals, u.mergeVals(conds, vs))
		}
	}
	return out, vals
}

func topoOrder(fn *ssa.Function) []*ssa.BasicBlock {
	// reverse post-order ignoring back edges
	visited := map[*ssa.BasicBlock]bool{}
	var post []*ssa.BasicBlock
	var dfs func(b *ssa.BasicBlock)
	dfs = func(b *ssa.BasicBlock) {
		visited[b] = true
		for _, s := range b.Succs {
			if s.Dominates(b) {
				continue
			}
			if !visited[s] {
				dfs(s)
			}
		}
		post = append(post, b)
	}
	dfs(fn.Blocks[0])
	for i, j := 0, len(post)-1; i < j; i, j = i+1, j-1 {
		post[i], post[j] = post[j], post[i]
	}
	return post
}

func (u *Unit) edge(fr *Frame, in map[*ssa.BasicBlock][]incoming, from, to *ssa.BasicBlock, st *State, cond *Term) {
	if to.Dominates(from) {
		// back edge: the invariant must be re-established
		li := fr.headers[to]
		bst := st.clone()
		u.assume(bst, cond)
		u.checkInvariant(fr, li, bst, "preserved")
		return
	}
	// where a loop is left: its `exit` clauses are proved on every edge into the block
	// the loop falls through to when its condition fails - the edge from the header and
	// the edges of the break paths (whose blocks are not part of the natural loop)
	for _, li := range fr.loops {
		if li.spec == nil || len(li.spec.Exits) == 0 {
			continue
		}
		var done *ssa.BasicBlock
		for _, sc := range li.header.Succs {
			if !li.blocks[sc] {
				done = sc
			}
		}
		if done == nil || to != done {
			continue
		}
		est := st.clone()
		u.assume(est, cond)
		env := u.envFor(fr, est, u.entryFor(fr), nil)
		env.loop = li
		li.exitEdges++
		suffix := ""
		if li.exitEdges > 1 {
			suffix = fmt.Sprintf("~%d", li.exitEdges)
		}
		for i, ec := range li.spec.Exits {
			label := ec.Label
			if label == "" {
				label = fmt.Sprint(i + 1)
			}
			u.addOblNamed(est, "exit", fmt.Sprintf("exit#%d.%s%s", li.ordinal, label, suffix), "on leaving loop "+fmt.Sprint(li.ordinal)+": "+ec.Src, from.Instrs[len(from.Instrs)-1].Pos(), u.evalBoolF(env, est, ec.Expr))
		}
	}
	in[to] = append(in[to], incoming{st.clone(), cond, from})
}

func (u *Unit) mergeStates(ins []incoming) *State {
	if len(ins) == 1 {
		st := ins[0].st
		u.assume(st, ins[0].cond)
		st.guard = u.ctx.Define("g", And(st.guard, ins[0].cond))
		st.edges = map[*ssa.BasicBlock]*Term{}
		if ins[0].from != nil {
			st.edges[ins[0].from] = True
		}
		return st
	}
	conds := make([]*Term, len(ins))
	pcs := make([]*Term, len(ins))
	for i, x := range ins {
		pcs[i] = u.ctx.Define("edge", And(x.st.pc, x.cond))
		conds[i] = u.ctx.Define("g", And(x.st.guard, x.cond))
	}
	out := &State{cells: map[*ssa.Alloc]Val{}, heap: map[string]*Term{}, defers: map[int][]deferred{}, edges: map[*ssa.BasicBlock]*Term{}}
	// a lock is held after the join only if it is held on every incoming path
	for k := range ins[0].st.held {
		all := true
		for _, x := range ins[1:] {
			if x.st.held[k] == nil {
				all = false
			}
		}
		if all {
			if out.held == nil {
				out.held = map[string]*Term{}
			}
			out.held[k] = ins[0].st.held[k]
		}
	}
	out.pc = u.ctx.Define("pc", Or(pcs...))
	out.guard = u.ctx.Define("g", Or(conds...))
	for i, x := range ins {
		if x.from != nil {
			out.edges[x.from] = conds[i]
		}
	}
	// epoch
	sameEpoch := true
	for _, x := range ins[1:] {
		if x.st.epoch != ins[0].st.epoch {
			sameEpoch = false
		}
	}
	if sameEpoch {
		out.epoch = ins[0].st.epoch
		out.links = append([]epochLink(nil), ins[0].st.links...)
	} else {
		u.ctx.n++
		out.epoch = u.ctx.n
	}
	// heap maps
	names := map[string]bool{}
	for _, x := range ins {
		for k := range x.st.heap {
			names[k] = true
		}
	}
	for _, k := range sortedKeys(names) {
		vals := make([]Val, len(ins))
		for i, x := range ins {
			if rs, raw := u.rawSorts[k]; raw {
				vals[i] = u.mapGet(x.st, k, rs)
			} else {
				vals[i] = u.heapGet(x.st, k, u.mapSorts[k])
			}
		}
		out.heap[k] = u.mergeVals(conds, vals).(*Term)
	}
	// cells: a variable not yet allocated on some incoming path has its zero value there
	allCells := map[*ssa.Alloc]bool{}
	for _, x := range ins {
		for a := range x.st.cells {
			allCells[a] = true
		}
	}
	var cellList []*ssa.Alloc
	for a := range allCells {
		cellList = append(cellList, a)
	}
	sort.Slice(cellList, func(i, j int) bool {
		if cellList[i].Pos() != cellList[j].Pos() {
			return cellList[i].Pos() < cellList[j].Pos()
		}
		return cellList[i].Name() < cellList[j].Name()
	})
	for _, a := range cellList {
		vals := make([]Val, len(ins))
		for i, x := range ins {
			v, has := x.st.cells[a]
			if !has {
				v = u.zeroVal(ptrElem(a.Type()))
			}
			vals[i] = v
		}
		func() {
			defer func() {
				if r := recover(); r != nil {
					if _, isU := r.(unsupported); isU {
						return // cell dropped: reading it later reports unsupported
					}
					panic(r)
				}
			}()
			out.cells[a] = u.mergeVals(conds, vals)
		}()
	}
	// now
	{
		vals := make([]Val, len(ins))
		for i, x := range ins {
			vals[i] = x.st.now
		}
		out.now = u.mergeVals(conds, vals).(*Term)
	}
	// defers must agree
	for id, d0 := range ins[0].st.defers {
		for _, x := range ins[1:] {
			d := x.st.defers[id]
			if len(d) != len(d0) {
				unsupp("conditional defer (frames disagree at a join)")
			}
			for i := range d {
				if d[i].instr != d0[i].instr {
					unsupp("conditional defer (frames disagree at a join)")
				}
			}
		}
		out.defers[id] = d0
	}
	return out
}

// enterLoop: assert the invariant on entry, havoc what the loop may change,
// assume the invariant.
func (u *Unit) enterLoop(fr *Frame, li *loopInfo, st *State) {
	u.checkInvariant(fr, li, st, "init")
	pre := st.clone()
	// havoc local cells
	for _, a := range li.cells {
		if old, ok := st.cells[a]; ok || true {
			_ = old
			t := a.Type().(*types.Pointer).Elem()
			st.cells[a] = u.freshVal(st, t, "loop_"+a.Comment)
			if a.Comment == "rangeindex" {
				// written only by the range lowering: starts at -1 and is incremented
				u.assume(st, Ge(st.cells[a].(*Term), IntLit(-1)))
			}
		}
	}
	li.frame = nil
	if li.spec != nil && li.spec.HasModifies {
		fs := &FrameSet{since: pre.now, why: fmt.Sprintf("loop %d modifies", li.ordinal)}
		env := u.envFor(fr, pre, pre, nil)
		for _, m := range li.spec.Modifies {
			fs.items = append(fs.items, u.evalLoc(env, m.Expr, m.Src)...)
		}
		li.frame = fs
		u.havocItems(st, fs.items)
		st.now = u.ctx.FreshConst("now", SInt)
		u.assume(st, Ge(st.now, pre.now))
	} else if li.impure || (li.spec != nil && li.spec.ModifiesAll) {
		u.havocAll(st, fmt.Sprintf("loop %d of %s without modifies clause", li.ordinal, funcKey(fr.fn)))
		st.now = u.ctx.FreshConst("now", SInt)
		u.assume(st, Ge(st.now, pre.now))
	}
	// assume invariants
	if li.spec != nil {
		env := u.envFor(fr, st, u.entryFor(fr), nil)
		env.loop = li
		for _, inv := range li.spec.Invariants {
			u.assume(st, u.evalBoolF(env, st, inv.Expr))
		}
		if li.spec.Decreases != nil {
			v := u.evalTerm(env, li.spec.Decreases.Expr)
			li.variant0 = u.ctx.Define("variant0", v)
		}
		u.addCover(st, fmt.Sprintf("cover/loop#%d", li.ordinal), li.header.Instrs[0].Pos(), True)
		if len(li.spec.Steps) > 0 {
			li.head = st.clone()
		}
	}
}

func (u *Unit) checkInvariant(fr *Frame, li *loopInfo, st *State, phase string) {
	if li.spec == nil {
		return
	}
	if phase == "preserved" {
		li.backEdges++
		if li.backEdges > 1 {
			phase = fmt.Sprintf("preserved~%d", li.backEdges)
		}
	}
	env := u.envFor(fr, st, u.entryFor(fr), nil)
	env.loop = li
	pos := token.NoPos
	for _, in := range li.header.Instrs {
		if in.Pos().IsValid() {
			pos = in.Pos()
			break
		}
	}
	prefix := ""
	if fr.fn != u.fn {
		prefix = strings.TrimPrefix(funcKey(fr.fn), funcKey(u.fn)) + ":"
	}
	for i, inv := range li.spec.Invariants {
		name := fmt.Sprintf("%sinv#%d.%d/%s", prefix, li.ordinal, i+1, phase)
		if inv.Label != "" {
			name = fmt.Sprintf("%sinv#%d.%s/%s", prefix, li.ordinal, inv.Label, phase)
		}
		u.addOblNamed(st, "inv", name, "loop invariant "+phase+": "+inv.Src, pos, u.evalBoolF(env, st, inv.Expr))
	}
	if strings.HasPrefix(phase, "preserved") && li.head != nil {
		// two-state step assertions: the state at the head of this iteration is prev(...)
		senv := u.envFor(fr, st, u.entryFor(fr), nil)
		senv.loop = li
		senv.prevSt = li.head
		for i, sc := range li.spec.Steps {
			label := sc.Label
			if label == "" {
				label = fmt.Sprint(i + 1)
			}
			name := fmt.Sprintf("%sstep#%d.%s%s", prefix, li.ordinal, label, strings.TrimPrefix(phase, "preserved"))
			u.addOblNamed(st, "step", name, "loop step (every iteration): "+sc.Src, pos, u.evalBoolF(senv, st, sc.Expr))
		}
	}
	if strings.HasPrefix(phase, "preserved") && li.spec.Decreases != nil && li.variant0 != nil {
		v := u.evalTerm(env, li.spec.Decreases.Expr)
		u.addOblNamed(st, "variant", fmt.Sprintf("%svariant#%d%s", prefix, li.ordinal, strings.TrimPrefix(phase, "preserved")), "loop variant decreases and is bounded: "+li.spec.Decreases.Src, pos,
			And(Ge(li.variant0, zeroLike(v)), Lt(v, li.variant0)))
	}
}

func zeroLike(t *Term) *Term {
	if t.Sort == SReal {
		return &Term{"0.0", SReal}
	}
	return IntLit(0)
}

func (u *Unit) entryFor(fr *Frame) *State {
	return u.entry
}

func (u *Unit) havocItems(st *State, items []frameItem) {
	for _, it := range items {
		if it.Map == "*allocated*" {
			u.havocAllocated(st)
			continue
		}
		if it.Map == "map" {
			u.havocGoMap(st, it.Ptr)
			continue
		}
		m := u.heapGet(st, it.Map, it.Elem)
		switch {
		case it.Ptr == nil:
			u.ctx.n++
			st.heap[it.Map] = u.ctx.Const(fmt.Sprintf("%s@h%d", it.Map, u.ctx.n), HeapSort(it.Elem))
		case it.AllIdx:
			fresh := u.ctx.FreshConst("havoc_arr", ArrSort(SInt, it.Elem))
			u.heapSet(st, it.Map, Store(m, parr(it.Ptr), fresh))
		default:
			fresh := u.ctx.FreshConst("havoc", it.Elem)
			u.heapSet(st, it.Map, Store(m, parr(it.Ptr), Store(Select(m, parr(it.Ptr)), pidx(it.Ptr), fresh)))
		}
	}
}

// havocAllocated: every heap map gets a new version that agrees with the old
// one on all objects that existed when the unit was entered.
func (u *Unit) havocAllocated(st *State) {
	since := u.entry.now
	u.ctx.n++
	st.links = append(st.links, epochLink{from: st.epoch, to: u.ctx.n, since: since})
	st.epoch = u.ctx.n
	for _, name := range sortedKeys(st.heap) {
		old := st.heap[name]
		u.ctx.n++
		nw := u.ctx.Const(fmt.Sprintf("%s@a%d", name, u.ctx.n), old.Sort)
		r := &Term{"r!q", SRef}
		u.assume(st, Forall([]Binder{{"r!q", SRef}}, Implies(Lt(App(SInt, "birth", r), since), Eq(Select(nw, r), Select(old, r))), Select(nw, r)))
		st.heap[name] = nw
	}
}

// havocGoMap: the contents of one Go map object become unknown.
func (u *Unit) havocGoMap(st *State, m *Term) {
	for _, name := range sortedKeys(st.heap) {
		if !(strings.HasPrefix(name, "MD!") || strings.HasPrefix(name, "MV!") || strings.HasPrefix(name, "ML!")) {
			continue
		}
		old := st.heap[name]
		fresh := u.ctx.FreshConst("havoc_map", old.Sort.ElemOfArr())
		st.heap[name] = u.ctx.Define(name, Store(old, m, fresh))
	}
}

// checkWrite: frame obligations for a store to (Map, p).
func (u *Unit) checkWrite(st *State, mapName string, p *Term, pos token.Pos, what string) {
	for _, fs := range u.frames {
		if fs.all {
			continue
		}
		var alts []*Term
		alts = append(alts, Ge(App(SInt, "birth", parr(p)), fs.since))
		for _, it := range fs.items {
			if it.Map == "*allocated*" {
				alts = append(alts, Ge(App(SInt, "birth", parr(p)), u.entry.now))
				continue
			}
			if it.Map != mapName {
				continue
			}
			switch {
			case it.Ptr == nil:
				alts = append(alts, True)
			case it.AllIdx:
				alts = append(alts, Eq(parr(p), parr(it.Ptr)))
			default:
				alts = append(alts, Eq(p, it.Ptr))
			}
		}
		u.addObl(st, "frame", fmt.Sprintf("write to %s (%s) is allowed by %s", strings.TrimPrefix(mapName, "F!"), what, fs.why), pos, Or(alts...))
	}
}

// checkCallFrame: the callee's modifies set must be covered by every active scope.
func (u *Unit) checkCallFrame(st *State, items []frameItem, all bool, pos token.Pos, callee string) {
	for _, fs := range u.frames {
		if fs.all {
			continue
		}
		if all {
			u.addObl(st, "frame", fmt.Sprintf("call to %s (modifies everything) inside %s", callee, fs.why), pos, False)
			continue
		}
		// the allocation a frame item lives in (map items carry the map reference itself)
		refOf := func(p *Term) *Term {
			if p.Sort == SRef {
				return p
			}
			return parr(p)
		}
		for _, it := range items {
			var alts []*Term
			if it.Ptr != nil {
				alts = append(alts, Ge(App(SInt, "birth", refOf(it.Ptr)), fs.since))
			}
			for _, mine := range fs.items {
				if mine.Map == "*allocated*" && it.Ptr != nil {
					alts = append(alts, Ge(App(SInt, "birth", refOf(it.Ptr)), u.entry.now))
					continue
				}
				if mine.Map != it.Map {
					continue
				}
				switch {
				case mine.Ptr == nil:
					alts = append(alts, True)
				case it.Ptr == nil:
				case mine.AllIdx:
					alts = append(alts, Eq(refOf(it.Ptr), refOf(mine.Ptr)))
				case !it.AllIdx:
					alts = append(alts, Eq(it.Ptr, mine.Ptr))
				}
			}
			u.addObl(st, "frame", fmt.Sprintf("call to %s modifies %s, allowed by %s", callee, it.Src, fs.why), pos, Or(alts...))
		}
	}
}

// fnID: a stable small integer per static function (identity of function values).
func (p *Program) fnID(fn *ssa.Function) int {
	return p.fnIDKey(funcKey(fn))
}

func (p *Program) fnIDKey(k string) int {
	if p.fnIDs == nil {
		p.fnIDs = map[string]int{}
	}
	if id, ok := p.fnIDs[k]; ok {
		return id
	}
	id := len(p.fnIDs) + 1
	p.fnIDs[k] = id
	return id
}

// boundKeys: keys of the bound-method wrappers (x.M used as a value) of the
// methods called name in from's package; such a value "calls name".
func (p *Program) boundKeys(from *ssa.Function, name string) []string {
	if from == nil || from.Pkg == nil {
		return nil
	}
	var out []string
	for _, m := range from.Pkg.Members {
		if t, ok := m.(*ssa.Type); ok {
			for _, recv := range []types.Type{t.Type(), types.NewPointer(t.Type())} {
				ms := p.ssaProg.MethodSets.MethodSet(recv)
				for i := 0; i < ms.Len(); i++ {
					if f := p.ssaProg.MethodValue(ms.At(i)); f != nil && f.Name() == name {
						out = append(out, funcKey(f)+"$bound")
					}
				}
			}
		}
	}
	return out
}

// callersOf: the functions of from's package (anonymous ones included) whose body
// directly calls a function or method called name.
func (p *Program) callersOf(from *ssa.Function, name string) []*ssa.Function {
	if from == nil || from.Pkg == nil {
		return nil
	}
	var out []*ssa.Function
	var visit func(f *ssa.Function)
	seen := map[*ssa.Function]bool{}
	visit = func(f *ssa.Function) {
		if f == nil || seen[f] {
			return
		}
		seen[f] = true
		calls := false
		for _, b := range f.Blocks {
			for _, in := range b.Instrs {
				if ci, ok := in.(ssa.CallInstruction); ok {
					c := ci.Common()
					if c.IsInvoke() {
						if c.Method.Name() == name {
							calls = true
						}
					} else if callee := c.StaticCallee(); callee != nil && callee.Name() == name {
						calls = true
					}
				}
			}
		}
		if calls {
			out = append(out, f)
		}
		for _, a := range f.AnonFuncs {
			visit(a)
		}
	}
	for _, m := range from.Pkg.Members {
		if f, ok := m.(*ssa.Function); ok {
			visit(f)
		}
		if t, ok := m.(*ssa.Type); ok {
			for _, recv := range []types.Type{t.Type(), types.NewPointer(t.Type())} {
				ms := p.ssaProg.MethodSets.MethodSet(recv)
				for i := 0; i < ms.Len(); i++ {
					visit(p.ssaProg.MethodValue(ms.At(i)))
				}
			}
		}
	}
	return out
}

// pendingLockObl: "this access to a lock-protected field happens with the lock
// held"; generated only for units that take that lock themselves (a unit that
// never locks is either a constructor or is called with the lock held).
type pendingLockObl struct {
	inv string
	obl *Obligation
}

// checkLockHeld is called for every load/store of a struct field by the code.
func (u *Unit) checkLockHeld(st *State, a *AddrVal, pos token.Pos, what string) {
	for _, li := range u.prog.specs.LockInvs {
		for _, f := range li.Fields {
			if a.Map != "F!"+li.TypeName+"."+f {
				continue
			}
			if st.held[a.Ptr.S+"|"+li.Mutex] != nil {
				return
			}
			// the same object reached through another load: decided by the solver
			var same []*Term
			for k, base := range st.held {
				if strings.HasSuffix(k, "|"+li.Mutex) && base.Sort == a.Ptr.Sort {
					same = append(same, Eq(a.Ptr, base))
				}
			}
			goal := False
			if len(same) > 0 {
				goal = Or(same...)
			}
			// objects allocated by this activation and not yet shared need no lock
			for _, lo := range st.locals {
				if lo.ptr.S == a.Ptr.S {
					return
				}
			}
			u.counters["lockinv/held"]++
			name := fmt.Sprintf("lockinv/held#%d", u.counters["lockinv/held"])
			pc := u.ctx.Define("pc", st.pc)
			o := &Obligation{Name: name, Kind: "lockinv/held", Unit: u.name, Pos: u.posString(pos),
				Desc: what + " of " + shortName(li.TypeName) + "." + f + " (protected by " + li.Mutex + ") happens with the lock held", Hyp: pc, Goal: goal, Mark: u.ctx.Mark(), ctx: u.ctx, unit: u}
			u.pendingLock = append(u.pendingLock, pendingLockObl{li.TypeName + "." + li.Mutex, o})
			return
		}
	}
}
