package main

import (
	"bytes"
	"context"
	"fmt"
	"os"
	"os/exec"
	"path/filepath"
	"strings"
	"sync"
	"sync/atomic"
	"time"
)

type solverSpec struct {
	name string
	argv func(file string, timeout time.Duration) []string
}

var solvers = []solverSpec{
	{"z3-new-5.1.0", func(f string, t time.Duration) []string {
		return []string{"z3-new", fmt.Sprintf("-T:%d", int(t.Seconds())+1), f}
	}},
	{"z3-4.8.12", func(f string, t time.Duration) []string {
		return []string{"/usr/bin/z3", fmt.Sprintf("-T:%d", int(t.Seconds())+1), f}
	}},
	{"cvc5-1.0", func(f string, t time.Duration) []string {
		return []string{"cvc5", "--strings-exp", fmt.Sprintf("--tlimit=%d", t.Milliseconds()), f}
	}},
	{"cvc5-1.0-enum", func(f string, t time.Duration) []string {
		return []string{"cvc5", "--strings-exp", "--enum-inst", fmt.Sprintf("--tlimit=%d", t.Milliseconds()), f}
	}},
}

// Second-chance configurations of z3-new (used only in the retry pass): a different
// random seed or arithmetic / relevancy setting changes the instantiation order, which
// decides within a second many quantified goals the default order does not find (a
// harmless edit renumbers the constants of a query and can flip such luck).
var retrySolvers = []solverSpec{
	{"z3-new-5.1.0-seed2", func(f string, t time.Duration) []string {
		return []string{"z3-new", "smt.random_seed=2", fmt.Sprintf("-T:%d", int(t.Seconds())+1), f}
	}},
	{"z3-new-5.1.0-seed3", func(f string, t time.Duration) []string {
		return []string{"z3-new", "smt.random_seed=3", fmt.Sprintf("-T:%d", int(t.Seconds())+1), f}
	}},
	{"z3-new-5.1.0-arith2", func(f string, t time.Duration) []string {
		return []string{"z3-new", "smt.arith.solver=2", fmt.Sprintf("-T:%d", int(t.Seconds())+1), f}
	}},
	{"z3-new-5.1.0-norelevancy", func(f string, t time.Duration) []string {
		return []string{"z3-new", "smt.relevancy=0", fmt.Sprintf("-T:%d", int(t.Seconds())+1), f}
	}},
}

var querySeq int64

type solveResult struct {
	status  string // unsat | sat | unknown
	backend string
	ms      int64
	output  string
	all     map[string]string
}

// race runs every solver on the query; the first definite answer wins.
func race(query string, timeout time.Duration, dir string, tag string, wantAll bool, retry bool) solveResult {
	// one file per query: obligation names are not unique within a unit (several loops'
	// cover checks share a name) and workers run concurrently
	file := filepath.Join(dir, fmt.Sprintf("%s.%d.smt2", sanitize(tag), atomic.AddInt64(&querySeq, 1)))
	if err := os.WriteFile(file, []byte(query), 0o644); err != nil {
		return solveResult{status: "unknown", output: err.Error()}
	}
	ctx, cancel := context.WithTimeout(context.Background(), timeout+2*time.Second)
	defer cancel()
	type one struct {
		name, status, out string
		ms                int64
	}
	start := time.Now()
	useSolvers := solvers
	if strings.Contains(query, "(lambda ") {
		useSolvers = solvers[:2]
	}
	if retry {
		useSolvers = append(append([]solverSpec{}, useSolvers...), retrySolvers...)
	}
	ch := make(chan one, len(useSolvers))
	for _, s := range useSolvers {
		s := s
		go func() {
			argv := s.argv(file, timeout)
			cmd := exec.CommandContext(ctx, argv[0], argv[1:]...)
			var out bytes.Buffer
			cmd.Stdout = &out
			cmd.Stderr = &out
			cmd.Run()
			txt := out.String()
			first := strings.TrimSpace(strings.SplitN(txt, "\n", 2)[0])
			st := "unknown"
			switch first {
			case "unsat", "sat":
				st = first
			}
			if strings.HasPrefix(first, "(error") && strings.HasPrefix(s.name, "z3") {
				// the query itself is ill-formed (a sort error in the generator), not hard
				st = "malformed"
			}
			ch <- one{s.name, st, txt, time.Since(start).Milliseconds()}
		}()
	}
	res := solveResult{status: "unknown", all: map[string]string{}}
	var outs []string
	malformed := false
	for range useSolvers {
		o := <-ch
		res.all[o.name] = o.status
		if o.status == "unsat" || o.status == "sat" {
			if res.status == "unknown" {
				res.status, res.backend, res.ms, res.output = o.status, o.name, o.ms, o.out
				if !wantAll {
					cancel()
				}
			} else if res.status != o.status && o.status != "unknown" {
				res.output += "\nSOLVER DISAGREEMENT: " + o.name + " says " + o.status
				res.status = "disagree"
			}
		} else {
			if o.status == "malformed" {
				malformed = true
			}
			outs = append(outs, o.name+": "+trunc(strings.TrimSpace(o.out), 300))
		}
	}
	if malformed && res.status == "unknown" {
		res.status = "malformed"
	}
	if res.status == "unknown" || res.status == "malformed" {
		res.ms = time.Since(start).Milliseconds()
		res.output = strings.Join(outs, "\n")
	}
	return res
}

// solveAll discharges the obligations with a worker pool.
func solveAll(obls []*Obligation, timeout time.Duration, workers int, dir string, thorough bool) {
	var wg sync.WaitGroup
	jobs := make(chan *Obligation)
	for w := 0; w < workers; w++ {
		wg.Add(1)
		go func() {
			defer wg.Done()
			for o := range jobs {
				solveOne(o, timeout, dir, thorough, false)
			}
		}()
	}
	for _, o := range obls {
		if o.Status != "" {
			continue
		}
		jobs <- o
	}
	close(jobs)
	wg.Wait()
	// second chance for the few obligations no solver decided in time: the machine may be
	// shared with other checks (each query is raced on four solver processes), and a
	// time-out under load must not read as a broken proof. Re-run them two at a time with
	// three times the budget.
	var again []*Obligation
	for _, o := range obls {
		if !o.Cover && o.Status == "undecided" && !strings.Contains(o.Output, "disagree") {
			again = append(again, o)
		}
	}
	if len(again) == 0 || len(again) > 16 {
		return
	}
	sem := make(chan struct{}, 2)
	var wg2 sync.WaitGroup
	for _, o := range again {
		wg2.Add(1)
		sem <- struct{}{}
		go func(o *Obligation) {
			defer wg2.Done()
			defer func() { <-sem }()
			first := o.Ms
			solveOne(o, 3*timeout, dir, thorough, true)
			o.Ms += first
		}(o)
	}
	wg2.Wait()
}

func solveOne(o *Obligation, timeout time.Duration, dir string, thorough bool, retry bool) {
	q := o.ctx.Query(o.Mark, []*Term{o.Hyp}, o.Goal, nil)
	tag := shortName(o.Unit) + "__" + o.Name
	if o.Cover && timeout > 3*time.Second {
		timeout = 3 * time.Second
	}
	r := race(q, timeout, dir, tag, thorough, retry)
	o.Backend, o.Ms = r.backend, r.ms
	if o.Cover {
		switch r.status {
		case "sat":
			o.Status = "cover-ok"
		case "unsat":
			o.Status = "cover-failed"
			o.Output = "hypotheses are contradictory (vacuous)"
		case "malformed":
			o.Status = "malformed"
			o.Output = r.output
		default:
			o.Status = "cover-unknown"
		}
		return
	}
	switch r.status {
	case "unsat":
		o.Status = "discharged"
	case "sat":
		o.Status = "failed"
		o.Output = r.output
	case "malformed":
		o.Status = "malformed"
		o.Output = r.output
	case "disagree":
		o.Status = "undecided"
		o.Output = r.output
	default:
		o.Status = "undecided"
		o.Output = r.output
	}
}
