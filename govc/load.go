package main

import (
	"fmt"
	"go/types"
	"os"
	"path/filepath"
	"sort"
	"strings"

	"golang.org/x/tools/go/packages"
	"golang.org/x/tools/go/ssa"
	"golang.org/x/tools/go/ssa/ssautil"
)

type ssaAlloc = ssa.Alloc

const modulePath = "github.com/metrico/qryn"

// findContractFiles lists every verif_contracts.go under root with its package path.
func findContractFiles(root string) (map[string]string, error) {
	out := map[string]string{}
	err := filepath.Walk(root, func(p string, info os.FileInfo, err error) error {
		if err != nil {
			return nil
		}
		if info.IsDir() {
			n := info.Name()
			if n == ".git" || n == "node_modules" || n == "vendor" {
				return filepath.SkipDir
			}
			return nil
		}
		if info.Name() == "verif_contracts.go" {
			rel, _ := filepath.Rel(root, filepath.Dir(p))
			pkg := modulePath
			if rel != "." {
				pkg += "/" + filepath.ToSlash(rel)
			}
			out[p] = pkg
		}
		return nil
	})
	return out, err
}

func LoadProgram(root string, pkgPaths []string, specs *Specs) (*Program, error) {
	cfg := &packages.Config{
		Mode:       packages.LoadAllSyntax,
		Dir:        root,
		BuildFlags: []string{"-tags=verif"},
		Env:        goEnv(),
	}
	var patterns []string
	for _, p := range pkgPaths {
		patterns = append(patterns, p)
	}
	pkgs, err := packages.Load(cfg, patterns...)
	if err != nil {
		return nil, err
	}
	var errs []string
	for _, p := range pkgs {
		for _, e := range p.Errors {
			errs = append(errs, e.Error())
		}
	}
	if len(errs) > 0 {
		return nil, fmt.Errorf("package load errors:\n%s", strings.Join(errs, "\n"))
	}
	prog, spkgs := ssautil.AllPackages(pkgs, ssa.NaiveForm|ssa.GlobalDebug|ssa.InstantiateGenerics)
	P := &Program{fset: pkgs[0].Fset, pkgs: map[string]*packages.Package{}, ssaProg: prog, ssaPkgs: map[string]*ssa.Package{},
		specs: specs, funcs: map[string]*ssa.Function{}, typesPkgs: map[string]*types.Package{}, typeTags: map[string]int{}}
	packages.Visit(pkgs, nil, func(p *packages.Package) {
		P.pkgs[p.PkgPath] = p
		if p.Types != nil {
			P.typesPkgs[p.PkgPath] = p.Types
		}
	})
	for i, p := range pkgs {
		sp := spkgs[i]
		if sp == nil {
			return nil, fmt.Errorf("no SSA package for %s", p.PkgPath)
		}
		sp.Build()
		P.ssaPkgs[p.PkgPath] = sp
		P.indexFuncs(sp)
	}
	// SSA packages of dependencies (for globals and signatures), not built
	for _, sp := range prog.AllPackages() {
		if _, ok := P.ssaPkgs[sp.Pkg.Path()]; !ok {
			P.ssaPkgs[sp.Pkg.Path()] = sp
		}
	}
	return P, nil
}

func (p *Program) indexFuncs(sp *ssa.Package) {
	var add func(fn *ssa.Function)
	add = func(fn *ssa.Function) {
		if fn == nil {
			return
		}
		key := funcKey(fn)
		if _, ok := p.funcs[key]; ok {
			return
		}
		p.funcs[key] = fn
		for _, an := range fn.AnonFuncs {
			add(an)
		}
	}
	names := make([]string, 0, len(sp.Members))
	for n := range sp.Members {
		names = append(names, n)
	}
	sort.Strings(names)
	for _, n := range names {
		switch m := sp.Members[n].(type) {
		case *ssa.Function:
			add(m)
		case *ssa.Type:
			if named, ok := m.Type().(*types.Named); ok {
				for i := 0; i < named.NumMethods(); i++ {
					add(p.ssaProg.FuncValue(named.Method(i)))
				}
			}
		}
	}
}

const goToolchainBin = "/root/go/pkg/mod/golang.org/toolchain@v0.0.1-go1.24.2.linux-amd64/bin"

// goEnv: offline environment with the cached go1.24.2 toolchain first on PATH
// (the system go is 1.23 and cannot load /repo).
func goEnv() []string {
	env := []string{}
	for _, e := range os.Environ() {
		if strings.HasPrefix(e, "PATH=") || strings.HasPrefix(e, "GOFLAGS=") || strings.HasPrefix(e, "GOTOOLCHAIN=") {
			continue
		}
		env = append(env, e)
	}
	return append(env, "PATH="+goToolchainBin+":"+os.Getenv("PATH"), "GOFLAGS=-mod=mod", "GOPROXY=off", "GOSUMDB=off", "GOTOOLCHAIN=local", "CGO_ENABLED=0")
}
